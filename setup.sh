#!/bin/sh
# Offline set-up: hypothesis into /venv if missing; compile the oracle command.
set -e
cd "$(dirname "$0")"
/venv/bin/python -c 'import hypothesis' 2>/dev/null || \
  /venv/bin/pip install --no-index --find-links /opt/veriftools/wheels hypothesis
mkdir -p bin evidence replays
if [ -f vlib/oracle_cmd.c ]; then
  gcc -O2 -o bin/oracle_cmd vlib/oracle_cmd.c || echo "warning: gcc failed; python oracle will be used"
  # the command and the cross-check command: different programs, same file name
  mkdir -p bin/main bin/cc
  gcc -O2 -DONLY_ROLE='"main"' -o bin/main/oracle_cmd vlib/oracle_cmd.c || true
  gcc -O2 -DONLY_ROLE='"cc"' -o bin/cc/oracle_cmd vlib/oracle_cmd.c || true
fi
echo setup done
