#!/venv/bin/python
"""Validate vlib/smteval.py against z3: for generated scripts and assignments, (= t <my value>) together with the
assignment must be satisfiable."""
import subprocess, sys, time
sys.path.insert(0, '/verif')
from fractions import Fraction
from hypothesis import given, settings, seed, HealthCheck, Phase
from vlib import gen_typed, model, smteval

def lit(sort, v):
    k = sort[0]
    if k == 'Bool': return 'true' if v else 'false'
    if k == 'Int': return str(v) if v >= 0 else f'(- {-v})'
    if k == 'Real':
        n, d = v.numerator, v.denominator
        s = f'(/ {abs(n)}.0 {d}.0)'
        return s if n >= 0 else f'(- {s})'
    if k == 'BV': return f'(_ bv{v} {sort[1]})'
    if k == 'DT':
        c, args = v
        return c if not args else '(' + c + ' ' + ' '.join(lit(s, x) for s, x in args) + ')'
    raise ValueError(sort)

n = [0, 0, 0]
@seed(int(sys.argv[1]) if len(sys.argv) > 1 else 1)
@settings(max_examples=int(sys.argv[2]) if len(sys.argv) > 2 else 100, database=None, deadline=None, phases=[Phase.generate], suppress_health_check=list(HealthCheck))
@given(gen_typed.script(dict(gen_typed.EVAL_PROFILE, uf=False)))
def t(s):
    for salt in (1, 2):
        consts = {}
        for name, so in s.consts.items():
            try:
                consts[name] = (so, smteval.default_value(so, smteval.Ctx(dts=s.dts), smteval.hashval(name, salt)))
            except smteval.EvalError:
                return
        ctx = smteval.Ctx(consts=consts, defs={k: (f, r, b.plain) for k, (f, r, b) in s.defs.items()}, dts=s.dts, salt=salt)
        lines = [model.render(c) for c in s.cmds if c[0] in ('declare-datatype', 'declare-datatypes', 'declare-const', 'declare-fun', 'define-fun')]
        for name, (so, v) in consts.items():
            lines.append(f'(assert (= {name} {lit(so, v)}))')
        for path, term in s.terms:
            if s.cmds[path[0]][0] != 'assert':
                continue
            try:
                so, v = smteval.ev(term.plain, ctx, {})
            except smteval.EvalError:
                n[2] += 1
                continue
            n[0] += 1
            q = '\n'.join(lines + [f'(assert (= {model.render(term.plain)} {lit(so, v)}))', '(check-sat)'])
            p = subprocess.run(['z3', '-in', '-smt2', '-T:5'], input=q.encode(), capture_output=True)
            out = p.stdout.decode()
            if 'unsat' in out or ('error' in out and 'divisible' not in out):
                n[1] += 1
                print('MISMATCH', out[:200]); print(q); print()
t()
print('evaluated', n[0], 'mismatches', n[1], 'skipped', n[2])
