#!/bin/sh
# tools/selftest.sh [pattern]  - run every mutants/<ID>-*.patch against its property's quick check; table on stdout
cd /verif
for f in mutants/${1:-*}.patch; do
  id=$(basename "$f" | cut -d- -f1)
  out=$(tools/mutant.sh "$f" "$id" 2>&1)
  tests=$(echo "$out" | grep -E "passed|failed" | head -1 | sed 's/ in .*//')
  res=$(echo "$out" | grep "^mutant " | sed 's/.* rc=\([0-9]*\) wall=\(.*\)/rc=\1 \2/')
  key=$(echo "$out" | grep -E "^  key=" | head -1 | sed 's/^  key=\([^ ]*\).*/\1/')
  echo "| $(basename "$f" .patch) | $tests | $res | $key |"
done
