#!/opt/veriftools/pyvenv/bin/python
"""Coverage-guided byte fuzzer (atheris/libFuzzer) for ddSMT's main-process
paths (C04 thorough tier): bytes -> text -> parse_smtlib, auto_detect_theories,
collect_information, ddmin task generation.  An escaping exception is a crash;
the crashing input is written to the artifact directory and re-judged by
checks/c04.py (so the bucket key and the replay are the check's own)."""
import os
import sys

REPO = os.environ.get('VERIF_REPO', '/repo')
sys.path.insert(0, REPO)
saved = sys.argv
sys.argv = ['ddsmt', '/dev/null', '/dev/null', '/bin/true']
import atheris  # noqa: E402

with atheris.instrument_imports(include=['ddsmt']):
    from ddsmt import nodeio, nodes, mutators, smtlib, strategy_ddmin, options, cli  # noqa: E402
sys.argv = saved
cli.setup_logging()
import logging  # noqa: E402
logging.getLogger().setLevel(logging.CRITICAL)

TOKENS = [b'(', b')', b' ', b'\n', b'declare-const', b'declare-fun', b'define-fun', b'assert', b'let', b'forall', b'_',
          b'BitVec', b'Int', b'Bool', b'x', b'y', b'0', b'1', b'#b01', b'(_ bv1 8)', b'extract', b'zero_extend', b'=',
          b'and', b'not', b'"a""b"', b'|q r|', b';c\n', b'set-logic', b'QF_BV', b'declare-datatype', b'declare-datatypes',
          b'!', b':named', b'fp', b'select', b'concat', b'str.contains', b'ite', b'bvadd', b'define-funs-rec', b'Real',
          b'1.5', b'check-sat-assuming', b'exists', b'FloatingPoint', b'String', b'+', b'<', b'bvnot', b'xor', b'false']


def decode(data):
    """structure-aware decoding: each byte picks a token (so the fuzzer reaches
    logic instead of dying in the lexer); bytes >= 200 are taken literally"""
    out = []
    for b in data:
        if b < 200:
            out.append(TOKENS[b % len(TOKENS)])
            out.append(b' ')
        else:
            out.append(bytes([b - 200 + 32]))
    return b''.join(out).decode('latin-1')


def one(data):
    text = decode(data)
    setattr(options, '__PARSED_ARGS', None)
    options.args(['in.smt2', 'out.smt2', '/bin/true'])
    exprs = list(nodeio.parse_smtlib(text))
    mutators.auto_detect_theories(exprs)
    setattr(options, '__PARSED_ARGS', None)
    options.args(['in.smt2', 'out.smt2', '/bin/true'])
    smtlib.collect_information(exprs)
    if nodes.count_nodes(exprs) > 60:
        return
    passes = strategy_ddmin.ddmin_passes()
    for stage, depth in ((passes[0], 1), (passes[1], None)):
        for m in stage:
            tg = strategy_ddmin.TaskGenerator(exprs, None, m, depth)
            gran = tg.gran
            while gran > 0:
                for _ in tg:
                    pass
                gran //= 2
                tg = strategy_ddmin.TaskGenerator(exprs, gran, m, depth)


if __name__ == '__main__':
    if len(sys.argv) > 1 and sys.argv[1] == '--decode':
        sys.stdout.write(decode(open(sys.argv[2], 'rb').read()))
        sys.exit(0)
    atheris.Setup(sys.argv, one)
    atheris.Fuzz()
