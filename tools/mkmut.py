#!/venv/bin/python
"""mkmut.py <name> <relpath> <old> <new> [<relpath2> <old2> <new2> ...]
Creates mutants/<name>.patch (unified diff against /repo's working tree)."""
import difflib, sys, os
name = sys.argv[1]
rest = sys.argv[2:]
out = []
while rest:
    rel, old, new = rest[:3]; rest = rest[3:]
    src = open(os.path.join('/repo', rel)).read()
    if src.count(old) != 1:
        sys.exit(f'{name}: pattern occurs {src.count(old)} times in {rel}')
    dst = src.replace(old, new)
    out.extend(difflib.unified_diff(src.splitlines(True), dst.splitlines(True), 'a/' + rel, 'b/' + rel))
open(os.path.join('/verif/mutants', name + '.patch'), 'w').write(''.join(out))
print('wrote', name)
