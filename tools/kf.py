#!/venv/bin/python
"""Maintain known_findings.json:  kf.py fixed C08 <commit> "<what failed>"  |  kf.py known C18 <key> "<what>" [case.json]"""
import json, os, sys
HERE = os.path.dirname(os.path.dirname(os.path.abspath(__file__)))
P = os.path.join(HERE, 'known_findings.json')
d = json.load(open(P))
kind = sys.argv[1]
if kind == 'fixed':
    _, _, prop, commit, what = sys.argv
    d['fixed'].append(dict(property=prop, commit=commit, what=what,
                           line=f'fixed: property={prop} {commit} {what}'))
elif kind == 'known':
    prop, key, what = sys.argv[2:5]
    e = dict(property=prop, key=key, what=what)
    if len(sys.argv) > 5:
        e['case'] = json.load(open(sys.argv[5]))['case']
    d['known'] = [k for k in d['known'] if not (k['property'] == prop and k['key'] == key)]
    d['known'].append(e)
json.dump(d, open(P, 'w'), indent=1)
