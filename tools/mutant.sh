#!/bin/sh
# tools/mutant.sh <patch> <PROP> [tier]   - run one check against a scratch copy of /repo with <patch> applied.
# Prints: pytest result, check exit status and its VIOLATION lines. Nothing in /repo or evidence/ is touched.
set -u
PATCH=$(readlink -f "$1"); PROP=$2; TIER=${3:-quick}
D=$(mktemp -u /tmp/mut-XXXXXX)
git -C /repo worktree add -q --detach "$D" HEAD || exit 3
cleanup() { git -C /repo worktree remove --force "$D" 2>/dev/null; rm -rf "$D"; git -C /repo worktree prune; }
trap cleanup EXIT INT TERM
( cd "$D" && patch -p1 -s < "$PATCH" ) || { echo "PATCH-FAILED"; exit 3; }
if [ "${SKIP_PYTEST:-0}" != 1 ]; then
  ( cd "$D" && /venv/bin/python -m pytest -q -p no:cacheprovider -x 2>&1 | tail -1 )
fi
START=$(date +%s)
VERIF_REPO="$D" VERIF_EVIDENCE_DIR="$D/.evidence" timeout ${MUT_TIMEOUT:-900} /verif/check "$PROP" --tier "$TIER" > "$D/.out" 2>&1
RC=$?
END=$(date +%s)
grep -E "^(VIOLATION|KNOWN-FINDING|HARNESS)" "$D/.out" | cut -c1-200 | head -8
grep -E "^  key=" "$D/.out" | cut -c1-260 | head -6
tail -1 "$D/.out" | cut -c1-300
echo "mutant $(basename "$PATCH") $PROP rc=$RC wall=$((END-START))s"
exit $RC
