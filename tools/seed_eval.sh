#!/bin/sh
# tools/seed_eval.sh <PROP> <srcdir with patch.diff demo.py README.txt> <name> [check tier]
# Confirms an independently written property-breaking change and runs the property's check against it.
PROP=$1; SRC=$2; NAME=$3; TIER=${4:-quick}
cd /verif
D=$(mktemp -u /tmp/seedchk-XXXXXX)
git -C /repo worktree add -q --detach "$D" HEAD || exit 3
cleanup() { git -C /repo worktree remove --force "$D" 2>/dev/null; rm -rf "$D"; git -C /repo worktree prune; }
trap cleanup EXIT INT TERM
if ! git -C "$D" apply "$SRC/patch.diff"; then echo "PATCH-DOES-NOT-APPLY"; exit 3; fi
TESTS=$(cd "$D" && /venv/bin/python -m pytest -q -p no:cacheprovider 2>&1 | tail -1)
timeout 600 /venv/bin/python "$SRC/demo.py" "$D" > /tmp/seed-demo-with.out 2>&1; WITH=$?
timeout 600 /venv/bin/python "$SRC/demo.py" /repo > /tmp/seed-demo-without.out 2>&1; WITHOUT=$?
echo "tests: $TESTS | demo with change: exit $WITH | demo on /repo: exit $WITHOUT"
OUT=$(tools/mutant.sh "$SRC/patch.diff" "$PROP" "$TIER" 2>&1)
echo "$OUT" | grep -E "^  key=|^mutant|^VIOLATION" | cut -c1-260 | head -8
RC=$(echo "$OUT" | grep "^mutant " | sed 's/.* rc=\([0-9]*\).*/\1/')
mkdir -p "seeded/$NAME"
cp "$SRC/patch.diff" "$SRC/demo.py" "seeded/$NAME/"; cp "$SRC/README.txt" "seeded/$NAME/README.txt" 2>/dev/null
KEYS=$(echo "$OUT" | grep -E "^  key=" | sed 's/^  key=\([^ ]*\).*/\1/' | head -5 | tr '\n' ' ')
cat > "seeded/$NAME/meta.json" <<EOM
{"property": "$PROP", "tests": "$TESTS", "demo_exit_with_change": $WITH, "demo_exit_without_change": $WITHOUT,
 "check_cmd": "tools/mutant.sh seeded/$NAME/patch.diff $PROP $TIER", "check_exit": ${RC:-null}, "check_keys": "$KEYS",
 "repo_head": "$(git -C /repo log --format=%h -1)"}
EOM
cat "seeded/$NAME/meta.json"
