#!/bin/sh
# tools/runall.sh [tier]  - run every registered check, print exit status and wall time
cd /verif
TIER=${1:-quick}
for p in C01 C02 C03 C04 C05 C06 C07 C08 C09 C10 C11 C12 C13 C14 C15 C16 C17 C18; do
  S=$(date +%s)
  ./check $p --tier $TIER > /tmp/runall-$p.out 2>&1
  RC=$?
  E=$(date +%s)
  echo "$p rc=$RC wall=$((E-S))s $(grep -c '^VIOLATION' /tmp/runall-$p.out) violations, $(grep -c '^KNOWN-FINDING' /tmp/runall-$p.out) known"
done
