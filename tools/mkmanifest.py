#!/venv/bin/python
"""Regenerate MANIFEST.json from the table below (only checks that exist are
claimed; everything else is listed under not_applicable with the reason)."""
import json
import os

HERE = os.path.dirname(os.path.dirname(os.path.abspath(__file__)))

T = {
    'C01': dict(
        level='exploration', ref='§5 C01',
        technique='property-based testing: generated (input, command spec, options) driven through the real bin/ddsmt; oracle = command-side log + independent acceptance rule',
        text='Hypothesis-generated inputs, token-predicate commands, strategies, -j values, output formats and comparison options are run through the real executable; the output file is re-judged by the oracle command under an independent statement of the acceptance rule and its token sequence must be one the command logged as accepted. Sampled exploration is the right level: the property is an end-to-end composition over inputs x programs x configurations x schedules.',
        note='Trusted: the C/Python oracle command (twin-checked), the reference tokenizer, the independent acceptance rule. Schedules are perturbed by command-side delays, not enumerated.'),
    'C02': dict(
        level='exploration', ref='§5 C02',
        technique='property-based testing: generated runs; oracle = exhaustive enumeration of every proposal of every enabled mutator on the final output against the same command spec, plus a second real run',
        text='After each generated hierarchical/hybrid run the harness enumerates, independently of get_passes(), every proposal of every enabled mutator on the returned input and evaluates the command spec on each; none may be accepted. A second real run on the output must report that it cannot minimise.',
        note='Trusted: spec evaluator twin of the oracle command; registry get_all_mutators() as the list of mutators. Completion orders sampled.'),
    'C03': dict(
        level='exploration', ref='§5 C03',
        technique='property-based testing: proposal-graph search (no-op check, BFS+SCC, best-first return-path search) and CPU/memory-limited enumeration on generated scripts; real runs must not repeat a content, nor stall on a command that hangs',
        text='For generated well-sorted and damaged scripts every proposal is checked to change the token sequence; cycles are searched in the proposal graph by bounded closure + SCC and by return-path search from every non-shortening edge; every mutator call runs under RLIMIT_CPU/RLIMIT_AS so hangs are named. Bounded search is what this family can give for termination.',
        note='Cycles longer than the depth bound or outside the explored subgraph are not excluded. CPU-time limits (not wall clock) decide hangs.'),
    'C04': dict(
        level='exploration', ref='§5 C04',
        technique='property-based testing / fuzzing: generated ill-formed texts and damaged scripts through every main-process code path and the real executable; exception bucketing by escape site',
        text='G-lex texts (balanced or not), damaged typed scripts and intermediate inputs go through parse, theory detection, information collection and ddmin task generation in-process, and through bin/ddsmt end to end (all strategies, usage errors, injected mutator failures, SIGINT); any escaping exception, traceback or wrong exit status is a violation.',
        note='Exceptions inside hierarchical mutator calls are tolerated as the statement says; what is checked is that none escapes into the main control flow.'),
    'C05': dict(
        level='exploration', ref='§5 C05',
        technique='property-based testing over traced real runs: history invariant (chain of writes, verdict-before-write, derivation from predecessor) with schedule perturbation',
        text='Real runs with -j>1 are traced (every apply_simp derivation, every verdict, every write of the output file, per process); the invariant over the history is that each written content was accepted before the write and derives from its immediate predecessor by one traced simplification (one group for ddmin); in half of the runs the file is read at every traced line of every write and must hold the previous or the new element. Delays derived from candidate content drive late and simultaneous successes.',
        note='Interleavings are sampled, not enumerated. Tracing wrappers are installed from /verif on module attributes; ddSMT itself is unmodified.'),
    'C06': dict(
        level='fault_enumeration', ref='§5 C06',
        technique='fault injection: exhaustive enumeration of crash/read points inside every rewrite of the output file (sys.settrace), plus interrupted real runs',
        text='For generated (previous, next) inputs and each output format the real writer is run under a tracer; at every traced event the file is read as another process would see it and, separately, an interrupt is injected; the file must hold the complete previous or next text. Real runs are interrupted at drawn points and must leave the last accepted input, an untouched input file and no temporary directory.',
        note='Granularity is Python-level events and OS-level file visibility; torn writes inside one write(2) are below it.'),
    'C07': dict(
        level='exploration', ref='§5 C07',
        technique='property-based testing: round trip parse->render->parse for all four renderers and token-sequence equality via an independent tokenizer; output modes also through write_smtlib_to_file',
        text='Hypothesis-drawn texts with long/hyphenated tokens, literals with special characters, comments, empty lists and top-level atoms are parsed and rendered by all four renderers; each rendering must re-parse to the same structure and have the same reference token sequence.',
        note='Trusted: reference tokenizer (validated by construction in C08). Domain = parser output.'),
    'C08': dict(
        level='exploration', ref='§5 C08',
        technique='property-based testing with a reference reader; finite lexeme-class x separator x position product enumerated exhaustively',
        text='parse_smtlib is compared with the structure known by construction and with an independent SMT-LIB 2.6 reader on the exhaustive product of lexeme-class pairs, separators and positions and on Hypothesis-drawn lexeme sequences with nesting; the same comparison for what a real run reads from a file (observed when the parsed input reaches theory detection) and for --parser-test.',
        note='Reference reader written from the standard; disagreement between it and the by-construction structure is a harness error.'),
    'C09': dict(
        level='exploration', ref='§5 C09',
        technique='differential testing against an independent statement of the acceptance rule: exhaustive rule table + generated option/outcome wiring cases with a scripted command',
        text='matches_golden is compared with an independent rule on the full product of outcomes and options; the wiring (options -> streams, cross-check against its own golden run, --unchecked, argv and file extension) is checked on generated option sets and outcome triples with a scripted command run by the real checker.',
        note='The rule is written from the property text and docs/quickstart.rst.'),
    'C10': dict(
        level='fault_enumeration', ref='§5 C10',
        technique='fault injection: generated placements of hanging / spinning / allocating / dying candidates in real runs; oracle = adoption log, process table, exit status',
        text='Commands that sleep, spin, allocate or die depending on the candidate are placed pseudo-randomly in real runs under small limits; no faulty candidate may be adopted, no process may survive, ddSMT must finish within tests x limit, and a missing match string must stop with status 1.',
        note='Real time is involved; bounds are one-sided with large margins and a process-table witness, otherwise inconclusive.'),
    'C11': dict(
        level='exploration', ref='§5 C11',
        technique='model-based property testing (recursive nested-list model) incl. a stateful rule-based machine over pending simplifications, freshly forked workers, and the chain oracle over traced parallel ddmin runs',
        text='apply_simp/substitute are compared with a recursive model on generated trees and identity-/structure-keyed simplifications (replacements containing their own key, deletions, fresh declarations); base immutability and identity of untouched subtrees are asserted; a state machine checks that pending simplifications stay applicable.',
        note='Every call runs under a CPU limit so a hang is a reported failure.'),
    'C12': dict(
        level='exploration', ref='§5 C12',
        technique='model-based property testing of Node equality/hash/copy/pickle/traversals incl. a fork-based worker pool',
        text='Generated trees and colliding pairs are compared with the nested-list model for ==, hash, deepcopy, pickling in-process and through forked workers, dfs/bfs order and the counters.',
        note='Model = Python list/str equality.'),
    'C13': dict(
        level='exploration', ref='§5 C13',
        technique='property-based testing of reduplicate on generated DAGs + invariant over traced real runs (ids pairwise distinct at every Producer/TaskGenerator construction)',
        text='reduplicate is run on generated DAGs with shared leaves, subtrees, empty lists and top-level items: ids must be pairwise distinct, tokens unchanged, already-unique subtrees keep identity; real runs favouring sharing simplifications are traced at every generator construction.',
        note='Identity preservation is demanded only for nodes whose whole subtree had no repeated id (Node is immutable).'),
    'C14': dict(
        level='exploration', ref='§5 C14',
        technique='model-based property testing of option folding and pass construction; all single options and ordered pairs exhaustively, random longer sequences',
        text='An independent fold over the option sequence and the theory-presence vector of the generated input is compared (sandwich) with the mutator classes found in ddmin_passes()/get_passes() after the real parser and auto-detection.',
        note='Inputs declare each theory unambiguously or not at all.'),
    'C15': dict(
        level='exploration', ref='§5 C15',
        technique='property-based testing over a typed script generator: every proposal of every mutator applied, rendered and re-read by ddSMT and by the reference reader',
        text='For generated well-sorted scripts (and partially reduced forms) every proposal must use keys of the input, apply and render without error, consist of single-token leaves, re-parse to the in-memory tree, and introduce only new symbols declared before use.',
        note='Relative to the generated language.'),
    'C16': dict(
        level='exploration', ref='§5 C16',
        technique='property-based testing with ground-truth sorts by construction (typed term generator) against get_sort/get_bv_width and the replacement mutators',
        text='For every subterm of generated well-sorted scripts the inferred sort/width must be unknown or the true one; replacements by default constants, existing variables and fresh variables must have the true sort.',
        note='Relative to the generated language; generator soundness sampled against z3/cvc5 in the thorough tier.'),
    'C17': dict(
        level='exploration', ref='§5 C17',
        technique='property-based testing with an independent evaluator (and z3 in the thorough tier) on generated instances of each listed identity mutator',
        text='For each listed mutator, generated well-sorted instances it accepts are rewritten and original/replacement are compared by sort and by value under many assignments; in traced real runs every accepted step made by an identity rewrite must leave the value of every asserted formula unchanged.',
        note='Evaluator covers Core/Ints/Reals/BV/datatypes; FP sorts only.'),
    'C18': dict(
        level='exploration', ref='§5 C18',
        technique='metamorphic property testing: repeated -j 1 runs under different PYTHONHASHSEED and command delays must be byte-identical',
        text='Each generated case is run three times with different hash seeds, pids and command delays; outputs and the sequences of written contents must be identical.',
        note='Black box; differences are classified (fresh-variable names vs anything else).'),
}

REASON_NOT_BUILT = ('check not built yet in this session (design in DESIGN.md §5); '
                    'the technique applies and the check is planned')


def main():
    checks = []
    na = []
    for pid in sorted(T):
        t = T[pid]
        if os.path.exists(os.path.join(HERE, 'checks', pid.lower() + '.py')):
            checks.append(dict(
                property_id=pid,
                quick_cmd=f'./check {pid} --tier quick',
                thorough_cmd=f'./check {pid} --tier thorough',
                evidence_file=f'/verif/evidence/{pid}.json',
                replay_cmd_template=f'./check {pid} --replay {{path}}',
                engine='hypothesis-runner',
                level_claimed=dict(category=t['level'], text=t['text'],
                                   design_ref=t['ref']),
                level_note=t['note'],
                technique=t['technique']))
        else:
            na.append(dict(property_id=pid, reason=REASON_NOT_BUILT))
    fixes = []
    kf = json.load(open(os.path.join(HERE, 'known_findings.json')))
    man = dict(
        version=1,
        setup_cmd='./setup.sh',
        hooks=dict(
            guard='DDSMT_VERIF',
            enable='none needed: all observation is from /verif (wrappers installed on module attributes by vlib/launcher.py); DDSMT_VERIF is reserved and unused',
            baseline_off_cmd='cd /repo && /venv/bin/python -m pytest -ra -q -p no:cacheprovider --timeout=900 --continue-on-collection-errors',
            source_commits=[],
            add_only=True),
        engines=[dict(name='hypothesis-runner', path='/verif/vlib/runner.py',
                      serves_properties=[c['property_id'] for c in checks],
                      kind_free_text='Hypothesis 6.168 strategies / stateful machines / finite products, 16 forked shards, collect-bucket-shrink, evidence + replay writer')],
        checks=checks,
        notes='ddSMT is imported from /repo\'s working tree at run time (pure Python, not installed). '
              'Genuine defects repaired in /repo as "fix:" commits are listed in known_findings.json (fixed: ...). '
              f'{len(kf.get("fixed", []))} fixed, {len(kf.get("known", []))} known findings.',
        not_applicable=na)
    with open(os.path.join(HERE, 'MANIFEST.json'), 'w') as f:
        json.dump(man, f, indent=1)
    print('claimed:', [c['property_id'] for c in checks])
    print('not yet:', [n['property_id'] for n in na])


if __name__ == '__main__':
    main()
