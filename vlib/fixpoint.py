"""C02 oracle 1: enumerate every proposal of every enabled mutator on the final
input and evaluate the command spec on it (runs inside the launcher process,
after ddsmt's main() has returned)."""
import os
import traceback

from . import model, refreader, rule
from . import spec as vspec


def verdict(plan, text):
    toks = vspec.tokens_of_text(text)
    r = vspec.evaluate(plan['spec'], toks, 'main')
    if r['fault']:
        run = (None, None, None) if r['fault'] in 'sthpamw' else (-11 if r['fault'] == 'v' else -9, '', '')
    else:
        run = (r['exit'], r['out'], r['err'])
    run_cc = golden_cc = None
    if plan.get('spec_cc'):
        rc = vspec.evaluate(plan['spec_cc'], toks, 'cc')
        run_cc = (rc['exit'], rc['out'], rc['err'])
        golden_cc = tuple(plan['golden_cc'])
    return rule.accepts_opts(plan['opts'], tuple(plan['golden']), run, golden_cc, run_cc)


def enabled_mutators(enabled=None):
    from ddsmt import mutators, options
    a = enabled if enabled is not None else vars(options.args())
    out = []
    for theory, (mod, muts) in mutators.get_all_mutators().items():
        for cname, opt in muts.items():
            if a.get('mutator_' + opt.replace('-', '_'), True):
                out.append((cname, getattr(mod, cname)))
    return out


def enumerate_proposals(exprs, plan, workdir, apply_simp, limit=20000, enabled=None):
    from ddsmt import nodes, nodeio, smtlib
    smtlib.collect_information(exprs)
    muts = [(n, c()) for n, c in enabled_mutators(enabled)]
    fn = os.path.join(workdir, 'fixpoint-candidate.smt2')
    res = dict(nodes=0, proposals=0, per_mutator={}, accepted=[], raised={}, unrenderable=0,
               mutators=[n for n, _ in muts], truncated=False)
    base_tokens = refreader.flatten_top(model.to_plain(exprs))
    for idx, node in enumerate(nodes.bfs(exprs)):
        res['nodes'] += 1
        for name, m in muts:
            props = []
            try:
                if hasattr(m, 'filter') and not m.filter(node):
                    continue
                if hasattr(m, 'mutations'):
                    for x in m.mutations(node):
                        props.append(x)
                if hasattr(m, 'global_mutations'):
                    for x in m.global_mutations(node, exprs):
                        props.append(x)
            except Exception as e:  # noqa  tolerated by the statement
                res['raised'][name] = res['raised'].get(name, 0) + 1
            for k, simp in enumerate(props):
                res['proposals'] += 1
                res['per_mutator'][name] = res['per_mutator'].get(name, 0) + 1
                try:
                    cand = apply_simp(exprs, type(simp)(dict(simp.substs), list(simp.fresh_vars)))
                    nodeio.write_smtlib_for_checking(fn, cand)
                    with open(fn, newline='') as f:
                        text = f.read()
                except Exception:  # noqa  not applicable / not renderable: C15's business
                    res['unrenderable'] += 1
                    continue
                if verdict(plan, text):
                    toks = vspec.tokens_of_text(text)
                    res['accepted'].append(dict(mutator=name, node=idx, proposal=k,
                                                node_text=str(node)[:200], noop=(toks == base_tokens),
                                                candidate=text[:1500]))
                if res['proposals'] >= limit:
                    res['truncated'] = True
                    return res
    return res
