"""Reference SMT-LIB 2.6 reader, written from the standard (section 3.1), not
from ddsmt/nodeio.py.

Lexical rules used:
  * white space: TAB, LF, CR, SPACE
  * '(' and ')' are tokens
  * string literal: '"' ... '"' where '""' inside stands for one quote and
    does not end the literal; any other character (including newlines) is
    literal content
  * quoted symbol: '|' ... '|' with any characters but '|' and '\\' (we accept
    a backslash inside as ordinary content: the reader never rejects)
  * comment: ';' up to and including the end of line (LF), or end of text
  * every other maximal run of characters that are not white space, '(' , ')',
    ';', '"' or '|' is one atom.  (The standard's simple symbols/numerals/
    keywords/#b/#x all fall into this class; a '"' or '|' directly adjacent to
    an atom would start a new lexeme - such texts are not generated.)

``read`` returns a list of top-level items as nested Python lists of token
texts; comments are leaves (text starting with ';', *without* the line
terminator).  ``tokens`` returns the flat token sequence with comments dropped.
"""

WS = ' \t\n\r'


class ReadError(Exception):
    pass


def lex(text):
    """Yield (kind, text) with kind in '(' ')' 'atom' 'string' 'quoted'
    'comment'."""
    pos = 0
    n = len(text)
    while pos < n:
        c = text[pos]
        if c in WS:
            pos += 1
        elif c == '(' or c == ')':
            yield c, c
            pos += 1
        elif c == ';':
            end = text.find('\n', pos)
            if end == -1:
                end = n
            body = text[pos:end]
            if body.endswith('\r'):
                body = body[:-1]
            yield 'comment', body
            pos = end + 1
        elif c == '"':
            i = pos + 1
            while True:
                j = text.find('"', i)
                if j == -1:
                    raise ReadError('unterminated string literal')
                if j + 1 < n and text[j + 1] == '"':
                    i = j + 2
                    continue
                break
            yield 'string', text[pos:j + 1]
            pos = j + 1
        elif c == '|':
            j = text.find('|', pos + 1)
            if j == -1:
                raise ReadError('unterminated quoted symbol')
            yield 'quoted', text[pos:j + 1]
            pos = j + 1
        else:
            i = pos
            while i < n and text[i] not in WS and text[i] not in '();"|':
                i += 1
            yield 'atom', text[pos:i]
            pos = i


def read(text, keep_comments=True):
    stack = [[]]
    for kind, tok in lex(text):
        if kind == '(':
            stack.append([])
        elif kind == ')':
            if len(stack) == 1:
                raise ReadError('unbalanced )')
            done = stack.pop()
            stack[-1].append(done)
        elif kind == 'comment':
            if keep_comments:
                stack[-1].append(tok)
        else:
            stack[-1].append(tok)
    if len(stack) != 1:
        raise ReadError('unbalanced (')
    return stack[0]


def tokens(text):
    """Token sequence, comments dropped.  Never raises on unbalanced text;
    an unterminated literal raises ReadError."""
    return [t for k, t in lex(text) if k != 'comment']


def tokens_lenient(text):
    """As ``tokens`` but an unterminated literal/quoted symbol becomes one
    final token (used to digest arbitrary files, e.g. in the command oracle)."""
    out = []
    try:
        for k, t in lex(text):
            if k != 'comment':
                out.append(t)
    except ReadError:
        out.append('<unterminated>')
    return out


def is_one_lexeme(s):
    """True iff ``s`` is exactly one non-comment lexeme (used by C15)."""
    if not s:
        return False
    try:
        toks = list(lex(s))
    except ReadError:
        return False
    if len(toks) != 1:
        return False
    kind, tok = toks[0]
    return kind in ('atom', 'string', 'quoted') and tok == s


def flatten(tree):
    """Token sequence of a nested-list tree (comment leaves dropped)."""
    out = []
    stack = [tree]
    while stack:
        t = stack.pop()
        if t is None:
            out.append(')')
        elif isinstance(t, str):
            if not t.startswith(';'):
                out.append(t)
        else:
            out.append('(')
            stack.append(None)
            stack.extend(reversed(t))
    return out


def flatten_top(items):
    out = []
    for it in items:
        out.extend(flatten(it))
    return out


def read_lenient(text):
    """As ``read`` but never raises: stray ')' are ignored, missing ')' are
    supplied at the end, an unterminated literal ends the text."""
    stack = [[]]
    try:
        for kind, tok in lex(text):
            if kind == '(':
                stack.append([])
            elif kind == ')':
                if len(stack) > 1:
                    done = stack.pop()
                    stack[-1].append(done)
            else:
                stack[-1].append(tok)
    except ReadError:
        pass
    while len(stack) > 1:
        done = stack.pop()
        stack[-1].append(done)
    return stack[0]
