"""Import ddSMT from the *current working tree* of $VERIF_REPO (default /repo).

ddSMT is pure Python and not installed in /venv, so importing from the tree is
the "rebuild": nothing can be stale.  ``ddsmt.debug_utils`` parses ``sys.argv``
at import time, so argv is set to a harmless command line first.
"""
import importlib
import logging
import os
import sys

REPO = os.environ.get('VERIF_REPO', '/repo')
VERIF = os.path.dirname(os.path.dirname(os.path.abspath(__file__)))

_loaded = None

BASE_ARGV = ['ddsmt', '/dev/null', '/dev/null', '/bin/true']


class DD:
    """Namespace with the ddsmt modules."""


def load(argv=None):
    """Import ddsmt modules from REPO; returns a namespace object."""
    global _loaded
    if _loaded is not None:
        return _loaded
    if REPO not in sys.path:
        sys.path.insert(0, REPO)
    saved = sys.argv
    sys.argv = list(argv or BASE_ARGV)
    try:
        dd = DD()
        for name in ('nodes', 'nodeio', 'options', 'smtlib', 'mutator_utils',
                     'mutators', 'mutators_core', 'mutators_smtlib',
                     'mutators_boolean', 'mutators_arithmetic', 'mutators_bv',
                     'mutators_strings', 'mutators_datatypes', 'mutators_fp',
                     'checker', 'tmpfiles', 'cli', 'strategy_ddmin',
                     'strategy_hierarchical', 'debug_utils', '__main__'):
            setattr(dd, name.strip('_') if name != '__main__' else 'main_mod',
                    importlib.import_module('ddsmt.' + name))
        modfile = os.path.realpath(dd.nodes.__file__)
        if not modfile.startswith(os.path.realpath(REPO) + os.sep):
            raise RuntimeError(f'ddsmt imported from {modfile}, not {REPO}')
        # logging.trace / logging.chat exist only after setup_logging()
        dd.cli.setup_logging()
        logging.getLogger().setLevel(logging.CRITICAL)
        dd.Node = dd.nodes.Node
        _loaded = dd
        return dd
    finally:
        sys.argv = saved


def set_options(dd, cmdline):
    """Re-parse options with the real parser (cmdline: list after argv[0])."""
    setattr(dd.options, '__PARSED_ARGS', None)
    return dd.options.args(list(cmdline))


def all_mutator_classes(dd):
    """name -> (module, class, option name, theory) from the registry."""
    res = {}
    for theory, (mod, muts) in dd.mutators.get_all_mutators().items():
        for cname, opt in muts.items():
            res[cname] = (mod, getattr(mod, cname), opt, theory)
    return res
