"""The acceptance rule, written from the statement of C09 and
docs/quickstart.rst - no code shared with ddsmt/checker.py.

An outcome is (exit, out, err); a timed-out run is (None, None, None).
"""


def stream_ok(ignored, match, golden_stream, run_stream):
    if ignored:
        return True
    if match:
        return run_stream is not None and match in run_stream
    return run_stream == golden_stream


def accepts(golden, run, ignore_out=False, ignore_err=False, match_out=None,
            match_err=None):
    if run[0] != golden[0]:
        return False
    return (stream_ok(ignore_out, match_out, golden[1], run[1])
            and stream_ok(ignore_err, match_err, golden[2], run[2]))


def accepts_opts(opts, golden, run, golden_cc=None, run_cc=None):
    """opts: dict with the command-line comparison options (bools / strings).
    With a cross check, both must accept, each against its own golden run."""
    if opts.get('unchecked'):
        return True
    ign = bool(opts.get('ignore_output'))
    if not accepts(golden, run, ign or bool(opts.get('ignore_out')),
                   ign or bool(opts.get('ignore_err')), opts.get('match_out'),
                   opts.get('match_err')):
        return False
    if opts.get('cmd_cc'):
        ign_cc = bool(opts.get('ignore_output_cc'))
        if not accepts(golden_cc, run_cc, ign_cc, ign_cc, opts.get('match_out_cc'),
                       opts.get('match_err_cc')):
            return False
    return True
