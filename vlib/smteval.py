"""Independent evaluator (and, through typed values, sort checker) for the
evaluable fragment of the generated language: Core, Ints, Reals, fixed-size
bit-vectors, ite, let, define-fun application, quantifiers over small
domains, constructor / selector terms, uninterpreted functions (fixed
pseudo-random tables).  Works on plain nested lists.

Values: Bool -> bool, Int -> int, Real -> Fraction, BV -> int,
DT -> (ctor, (typed args...)).  ``ev`` returns (sort, value).
"""
import re
from fractions import Fraction

from .spec import mix

BOOL, INT, REAL = ('Bool', ), ('Int', ), ('Real', )


class EvalError(Exception):
    """construct outside the evaluable fragment (case is skipped)"""


class SortError(Exception):
    """the term is ill-sorted"""


class Ctx:

    def __init__(self, consts=None, funs=None, defs=None, dts=None, salt=0):
        self.consts = consts or {}  # name -> (sort, value)
        self.funs = funs or {}  # name -> (argsorts, ret)
        self.defs = defs or {}  # name -> (formals [(n, s)], ret, body plain)
        self.dts = dts or {}  # dt -> [(ctor, [(sel, sort)])]
        self.salt = salt
        self.ctors = {}
        self.sels = {}
        for dt, cs in self.dts.items():
            for c, fs in cs:
                self.ctors[c] = (dt, [s for _, s in fs])
                for i, (sel, s) in enumerate(fs):
                    self.sels[sel] = (c, i, s)


def sort_of_plain(p, ctx):
    from .gen_typed import sort_from_plain
    s = sort_from_plain(p, set(ctx.dts))
    if s is None:
        raise EvalError(f'sort {p!r}')
    return s


def hashval(*parts):
    h = 1469598103934665603
    for p in parts:
        for b in repr(p).encode():
            h = ((h ^ b) * 1099511628211) & ((1 << 64) - 1)
    return h


def default_value(sort, ctx, seed):
    """A deterministic pseudo-random value of the given sort."""
    k = sort[0]
    h = mix(seed, 12345)
    if k == 'Bool':
        return bool(h & 1)
    if k == 'Int':
        return (h % 21) - 10
    if k == 'Real':
        return Fraction((h % 41) - 20, 1 + (h >> 8) % 4)
    if k == 'BV':
        w = sort[1]
        corner = [0, 1, (1 << w) - 1, 1 << (w - 1)]
        if h % 3 == 0:
            return corner[(h >> 4) % 4] & ((1 << w) - 1)
        return (h >> 7) & ((1 << w) - 1)
    if k == 'DT':
        cs = ctx.dts[sort[1]]
        c, fs = cs[h % len(cs)]
        return (c, tuple((s, default_value(s, ctx, mix(h, i + 1))) for i, (_, s) in enumerate(fs)))
    raise EvalError(f'no values for sort {sort}')


def signed(v, w):
    return v - (1 << w) if v >> (w - 1) else v


def bv(v, w):
    return v & ((1 << w) - 1)


BV_BIN = {'bvand', 'bvor', 'bvxor', 'bvnand', 'bvnor', 'bvxnor', 'bvadd', 'bvsub', 'bvmul', 'bvudiv', 'bvurem',
          'bvsdiv', 'bvsrem', 'bvsmod', 'bvshl', 'bvlshr', 'bvashr'}
BV_REL = {'bvult', 'bvule', 'bvugt', 'bvuge', 'bvslt', 'bvsle', 'bvsgt', 'bvsge'}
BV_NARY = {'bvand', 'bvor', 'bvadd', 'bvmul', 'bvxor'}


def bvop(op, a, b, w):
    m = (1 << w) - 1
    if op == 'bvand':
        return a & b
    if op == 'bvor':
        return a | b
    if op == 'bvxor':
        return a ^ b
    if op == 'bvnand':
        return ~(a & b) & m
    if op == 'bvnor':
        return ~(a | b) & m
    if op == 'bvxnor':
        return ~(a ^ b) & m
    if op == 'bvadd':
        return (a + b) & m
    if op == 'bvsub':
        return (a - b) & m
    if op == 'bvmul':
        return (a * b) & m
    if op == 'bvudiv':
        return m if b == 0 else a // b
    if op == 'bvurem':
        return a if b == 0 else a % b
    if op == 'bvshl':
        return (a << b) & m if b < w else 0
    if op == 'bvlshr':
        return a >> b if b < w else 0
    if op == 'bvashr':
        sa = signed(a, w)
        return bv(sa >> min(b, w), w)
    if op in ('bvsdiv', 'bvsrem', 'bvsmod'):
        sa, sb = signed(a, w), signed(b, w)
        na, nb = a >> (w - 1), b >> (w - 1)
        absa, absb = bv(-sa if na else sa, w), bv(-sb if nb else sb, w)
        if op == 'bvsdiv':
            q = m if absb == 0 else absa // absb
            return bv(-q, w) if na != nb else bv(q, w)
        if op == 'bvsrem':
            r = absa if absb == 0 else absa % absb
            return bv(-r, w) if na else bv(r, w)
        # bvsmod
        u = absa if absb == 0 else absa % absb
        if u == 0:
            return 0
        if not na and not nb:
            return u
        if na and not nb:
            return bv(-u + b, w)
        if not na and nb:
            return bv(u + b, w)
        return bv(-u, w)
    raise EvalError(op)


def parse_bv_literal(t):
    if isinstance(t, str):
        if re.match(r'^#b[01]+$', t):
            return len(t) - 2, int(t[2:], 2)
        if re.match(r'^#x[0-9a-fA-F]+$', t):
            return 4 * (len(t) - 2), int(t[2:], 16)
        return None
    if len(t) == 3 and t[0] == '_' and isinstance(t[1], str) and re.match(r'^bv[0-9]+$', t[1]) \
            and isinstance(t[2], str) and t[2].isdigit():
        w = int(t[2])
        v = int(t[1][2:])
        if w == 0:
            raise SortError('bit-vector of width 0')
        if v >= (1 << w):
            raise SortError(f'literal {t} does not fit')
        return w, v
    return None


def ev(t, ctx, env):  # noqa: C901
    if isinstance(t, str):
        if t in env:
            return env[t]
        if t == 'true':
            return BOOL, True
        if t == 'false':
            return BOOL, False
        if re.match(r'^(0|[1-9][0-9]*)$', t):
            return INT, int(t)
        if re.match(r'^[0-9]+\.[0-9]+$', t):
            return REAL, Fraction(t)
        lit = parse_bv_literal(t)
        if lit:
            return ('BV', lit[0]), lit[1]
        if t in ctx.consts:
            return ctx.consts[t]
        if t in ctx.defs and not ctx.defs[t][0]:
            return apply_def(t, [], ctx)
        if t in ctx.ctors and not ctx.ctors[t][1]:
            return ('DT', ctx.ctors[t][0]), (t, ())
        if t.startswith('"') or t in ('RNE', 'RNA', 'RTP', 'RTN', 'RTZ'):
            raise EvalError('string / rounding mode')
        raise SortError(f'unknown symbol {t}')
    if not t:
        raise SortError('empty application')
    head = t[0]
    lit = parse_bv_literal(t)
    if lit:
        return ('BV', lit[0]), lit[1]
    if isinstance(head, list):
        return ev_indexed(t, ctx, env)
    if head in env or (head in ctx.consts):
        raise SortError(f'application of the variable {head}')
    # binders
    if head == 'let':
        if len(t) != 3:
            raise SortError('let arity')
        inner = dict(env)
        for b in t[1]:
            if not isinstance(b, list) or len(b) != 2 or not isinstance(b[0], str):
                raise SortError('let binding')
            inner[b[0]] = ev(b[1], ctx, env)
        return ev(t[2], ctx, inner)
    if head in ('forall', 'exists'):
        if len(t) != 3:
            raise SortError('quantifier arity')
        doms = []
        for b in t[1]:
            s = sort_of_plain(b[1], ctx)
            if s == BOOL:
                d = [False, True]
            elif s[0] == 'BV' and s[1] <= 3:
                d = list(range(1 << s[1]))
            elif s == INT:
                d = [-2, -1, 0, 1, 2]
            else:
                raise EvalError('quantifier domain')
            doms.append((b[0], s, d))
        import itertools
        res = head == 'forall'
        for combo in itertools.product(*[d for _, _, d in doms]):
            inner = dict(env)
            for (n, s, _), v in zip(doms, combo):
                inner[n] = (s, v)
            so, val = ev(t[2], ctx, inner)
            if so != BOOL:
                raise SortError('quantifier body not Bool')
            if head == 'forall' and not val:
                return BOOL, False
            if head == 'exists' and val:
                return BOOL, True
        return BOOL, res
    if head == '!':
        return ev(t[1], ctx, env)
    if head == 'ite':
        if len(t) != 4:
            raise SortError('ite arity')
        c = ev(t[1], ctx, env)
        a, b = ev(t[2], ctx, env), ev(t[3], ctx, env)
        if c[0] != BOOL or a[0] != b[0]:
            raise SortError(f'ite sorts {c[0]} {a[0]} {b[0]}')
        return a if c[1] else b
    args = [ev(x, ctx, env) for x in t[1:]]
    sorts = [a[0] for a in args]
    vals = [a[1] for a in args]

    def same(n_min=1, sort=None):
        if len(args) < n_min or any(s != sorts[0] for s in sorts) or (sort and sorts[0] != sort):
            raise SortError(f'{head} applied to {sorts}')

    if head == 'not':
        same(1, BOOL)
        if len(args) != 1:
            raise SortError('not arity')
        return BOOL, not vals[0]
    if head in ('and', 'or', 'xor', '=>'):
        same(2 if head != 'and' and head != 'or' else 1, BOOL)
        if head == 'and':
            return BOOL, all(vals)
        if head == 'or':
            return BOOL, any(vals)
        if head == 'xor':
            r = False
            for v in vals:
                r ^= v
            return BOOL, r
        r = vals[-1]
        for v in reversed(vals[:-1]):
            r = (not v) or r
        return BOOL, r
    if head == '=':
        same(2)
        return BOOL, all(vals[i] == vals[i + 1] for i in range(len(vals) - 1))
    if head == 'distinct':
        same(2)
        return BOOL, all(vals[i] != vals[j] for i in range(len(vals)) for j in range(i + 1, len(vals)))
    if head in ('<', '<=', '>', '>='):
        same(2)
        if sorts[0] not in (INT, REAL):
            raise SortError(f'{head} on {sorts[0]}')
        f = {'<': lambda a, b: a < b, '<=': lambda a, b: a <= b, '>': lambda a, b: a > b,
             '>=': lambda a, b: a >= b}[head]
        return BOOL, all(f(vals[i], vals[i + 1]) for i in range(len(vals) - 1))
    if head in ('+', '*'):
        same(2)
        if sorts[0] not in (INT, REAL):
            raise SortError(f'{head} on {sorts[0]}')
        r = vals[0]
        for v in vals[1:]:
            r = r + v if head == '+' else r * v
        return sorts[0], r
    if head == '-':
        same(1)
        if sorts[0] not in (INT, REAL):
            raise SortError(f'- on {sorts[0]}')
        if len(vals) == 1:
            return sorts[0], -vals[0]
        r = vals[0]
        for v in vals[1:]:
            r -= v
        return sorts[0], r
    if head == '/':
        same(2, REAL)
        r = vals[0]
        for v in vals[1:]:
            r = Fraction(0) if v == 0 else r / v
        return REAL, r
    if head in ('div', 'mod'):
        same(2, INT)
        r = vals[0]
        for v in vals[1:]:
            if v == 0:
                r = 0 if head == 'div' else r
            else:
                q = r // v if v > 0 else -(r // -v)
                r = q if head == 'div' else r - v * q
        return INT, r
    if head == 'abs':
        same(1, INT)
        return INT, abs(vals[0])
    if head == 'to_real':
        same(1, INT)
        return REAL, Fraction(vals[0])
    if head == 'to_int':
        same(1, REAL)
        return INT, vals[0].numerator // vals[0].denominator
    if head == 'is_int':
        same(1, REAL)
        return BOOL, vals[0].denominator == 1
    # bit-vectors
    if head in ('bvnot', 'bvneg'):
        if len(args) != 1 or sorts[0][0] != 'BV':
            raise SortError(f'{head} on {sorts}')
        w = sorts[0][1]
        return sorts[0], bv(~vals[0] if head == 'bvnot' else -vals[0], w)
    if head in BV_BIN:
        if len(args) < 2 or sorts[0][0] != 'BV' or any(s != sorts[0] for s in sorts):
            raise SortError(f'{head} on {sorts}')
        if len(args) > 2 and head not in BV_NARY:
            raise SortError(f'{head} with {len(args)} arguments')
        w = sorts[0][1]
        r = vals[0]
        for v in vals[1:]:
            r = bvop(head, r, v, w)
        return sorts[0], r
    if head in BV_REL:
        if len(args) != 2 or sorts[0][0] != 'BV' or sorts[0] != sorts[1]:
            raise SortError(f'{head} on {sorts}')
        w = sorts[0][1]
        a, b = vals
        if head[2] == 's':
            a, b = signed(a, w), signed(b, w)
        f = {'lt': a < b, 'le': a <= b, 'gt': a > b, 'ge': a >= b}[head[3:]]
        return BOOL, f
    if head == 'bvcomp':
        if len(args) != 2 or sorts[0][0] != 'BV' or sorts[0] != sorts[1]:
            raise SortError(f'bvcomp on {sorts}')
        return ('BV', 1), int(vals[0] == vals[1])
    if head == 'concat':
        if len(args) < 2 or any(s[0] != 'BV' for s in sorts):
            raise SortError(f'concat on {sorts}')
        w, r = 0, 0
        for s, v in zip(sorts, vals):
            r = (r << s[1]) | v
            w += s[1]
        return ('BV', w), r
    # datatypes
    if head in ctx.ctors:
        dt, fs = ctx.ctors[head]
        if sorts != fs:
            raise SortError(f'constructor {head} on {sorts}')
        return ('DT', dt), (head, tuple(args))
    if head in ctx.sels:
        c, i, s = ctx.sels[head]
        dt = ctx.ctors[c][0]
        if len(args) != 1 or sorts[0] != ('DT', dt):
            raise SortError(f'selector {head} on {sorts}')
        if vals[0][0] == c:
            return vals[0][1][i]
        return s, default_value(s, ctx, hashval(head, vals[0], ctx.salt))
    if head in ctx.defs:
        return apply_def(head, args, ctx)
    if head in ctx.funs:
        argsorts, ret = ctx.funs[head]
        if sorts != list(argsorts):
            raise SortError(f'{head} on {sorts}')
        return ret, default_value(ret, ctx, hashval(head, vals, ctx.salt))
    if head.startswith('str.') or head.startswith('fp.') or head in ('select', 'store', 'fp', 'seq.unit', 'seq.nth'):
        raise EvalError(head)
    raise SortError(f'unknown operator {head}')


def apply_def(name, args, ctx):
    formals, ret, body = ctx.defs[name]
    if [a[0] for a in args] != [s for _, s in formals]:
        raise SortError(f'{name} on {[a[0] for a in args]}')
    env = {n: a for (n, _), a in zip(formals, args)}
    so, v = ev(body, ctx, env)
    if so != ret:
        raise SortError(f'body of {name} has sort {so}, declared {ret}')
    return so, v


def ev_indexed(t, ctx, env):
    head = t[0]
    if not head or head[0] != '_' or len(head) < 3 or not isinstance(head[1], str):
        raise SortError(f'head {head}')
    name = head[1]
    try:
        idx = [int(x) for x in head[2:]]
    except (ValueError, TypeError):
        raise SortError(f'indices {head}')
    args = [ev(x, ctx, env) for x in t[1:]]
    if name == 'divisible':
        if len(args) != 1 or args[0][0] != INT or len(idx) != 1 or idx[0] <= 0:
            raise SortError('divisible')
        return BOOL, args[0][1] % idx[0] == 0
    if name.startswith('fp.') or name.startswith('to_fp'):
        raise EvalError(name)
    if len(args) != 1 or args[0][0][0] != 'BV':
        raise SortError(f'{name} on {[a[0] for a in args]}')
    w, v = args[0][0][1], args[0][1]
    if name == 'extract':
        if len(idx) != 2 or not (w > idx[0] >= idx[1] >= 0):
            raise SortError(f'extract {idx} from width {w}')
        return ('BV', idx[0] - idx[1] + 1), (v >> idx[1]) & ((1 << (idx[0] - idx[1] + 1)) - 1)
    if len(idx) != 1 or idx[0] < 0:
        raise SortError(f'{name} {idx}')
    k = idx[0]
    if name == 'zero_extend':
        return ('BV', w + k), v
    if name == 'sign_extend':
        return ('BV', w + k), bv(signed(v, w), w + k)
    if name == 'repeat':
        if k < 1:
            raise SortError('repeat 0')
        r = 0
        for _ in range(k):
            r = (r << w) | v
        return ('BV', w * k), r
    if name in ('rotate_left', 'rotate_right'):
        k %= w
        if name == 'rotate_right':
            k = (w - k) % w
        return ('BV', w), bv((v << k) | (v >> (w - k)), w) if k else v
    raise SortError(f'unknown indexed operator {name}')
