"""CPU-time guard for calls into mutator / substitution code (DESIGN.md §4):
a hang becomes an exception instead of a stuck check.  CPU time (ITIMER_PROF),
not wall clock, so machine load does not matter."""
import contextlib
import gc
import resource
import signal


class CpuTimeout(BaseException):
    """BaseException so that 'except Exception' in the code under test cannot
    swallow it."""


def _handler(signum, frame):
    raise CpuTimeout()


@contextlib.contextmanager
def cpu_limit(seconds):
    """Raise CpuTimeout in the guarded block after ``seconds`` of CPU time.

    Hypothesis registers a gc callback; an exception raised by a signal handler
    while that callback runs is *ignored* by the interpreter, and an
    allocation-heavy runaway loop spends most of its time there.  The callbacks
    are therefore removed for the duration of the guarded call, and the timer is
    periodic so that one lost delivery does not matter."""
    saved_callbacks = gc.callbacks[:]
    gc.callbacks.clear()
    old = signal.signal(signal.SIGPROF, _handler)
    signal.setitimer(signal.ITIMER_PROF, seconds, 0.5)
    try:
        yield
    finally:
        signal.setitimer(signal.ITIMER_PROF, 0)
        signal.signal(signal.SIGPROF, old)
        gc.callbacks[:] = saved_callbacks


def limit_memory(gib=6):
    """Address-space cap for this (shard) process: runaway allocation raises
    MemoryError instead of taking the machine down."""
    soft, hard = resource.getrlimit(resource.RLIMIT_AS)
    lim = int(gib * 1024**3)
    resource.setrlimit(resource.RLIMIT_AS, (lim, hard))
