"""Generators for real-run cases: (input text, command spec, options)."""
from hypothesis import strategies as st

from . import model
from . import spec as vspec

# ----------------------------------------------------------------- scripts

INT_VARS = ['x', 'y', 'z', 'a', 'i1']
BOOL_VARS = ['p', 'q', 'r']
BV_VARS = ['bv1', 'bw', 'v']


def _terms():
    int_leaf = st.one_of(st.sampled_from(INT_VARS), st.sampled_from(['0', '1', '2', '7', '10', '42']))
    bool_leaf = st.one_of(st.sampled_from(BOOL_VARS), st.sampled_from(['true', 'false']))
    bv_leaf = st.one_of(st.sampled_from(BV_VARS),
                        st.sampled_from(['#b00000000', '#x0f', '#xff', ['_', 'bv5', '8'], '#b00000001']))

    def ext(children):
        i, b, v = children['int'], children['bool'], children['bv']
        return dict(
            int=st.one_of(
                i, st.builds(lambda o, x, y: [o, x, y], st.sampled_from(['+', '-', '*', 'div', 'mod']), i, i),
                st.builds(lambda x, y, z: ['+', x, y, z], i, i, i),
                st.builds(lambda c, x, y: ['ite', c, x, y], b, i, i),
                st.builds(lambda x: ['-', x], i),
                st.builds(lambda n, x, y: ['let', [[n, x]], ['+', n, y]], st.sampled_from(['l1', 'l2']), i, i),
                st.builds(lambda x, y: ['f', x, y], i, i)),
            bool=st.one_of(
                b, st.builds(lambda o, x, y: [o, x, y], st.sampled_from(['<', '<=', '>', '>=', '=', 'distinct']), i, i),
                st.builds(lambda o, x, y: [o, x, y], st.sampled_from(['and', 'or', '=>', 'xor', '=']), b, b),
                st.builds(lambda x, y, z: ['and', x, y, z], b, b, b),
                st.builds(lambda x: ['not', x], b),
                st.builds(lambda o, x, y: [o, x, y], st.sampled_from(['bvult', 'bvsle', '=']), v, v),
                st.builds(lambda x, n: ['!', x, ':named', n], b, st.sampled_from(['n1', 'n2'])),
                st.builds(lambda q, x: [q, [['k', 'Int']], x], st.sampled_from(['forall', 'exists']), b),
                st.builds(lambda n, x, y: ['let', [[n, x]], ['or', n, y]], st.sampled_from(['m1', 'm2']), b, b),
                st.builds(lambda x: ['g', x], i)),
            bv=st.one_of(
                v, st.builds(lambda o, x, y: [o, x, y], st.sampled_from(['bvadd', 'bvand', 'bvor', 'bvmul', 'bvsub', 'bvlshr']), v, v),
                st.builds(lambda x: ['bvnot', x], v), st.builds(lambda x: ['bvneg', ['bvneg', x]], v),
                st.builds(lambda x: [['_', 'extract', '7', '0'], [['_', 'zero_extend', '4'], x]], v),
                st.builds(lambda c, x, y: ['ite', c, x, y], b, v, v)),
        )

    # manual bounded recursion (three mutually recursive sorts)
    level = dict(int=int_leaf, bool=bool_leaf, bv=bv_leaf)
    for _ in range(3):
        level = ext(level)
    return level


_T = None


def terms():
    global _T
    if _T is None:
        _T = _terms()
    return _T


DECLS = [
    ['declare-const', 'x', 'Int'], ['declare-const', 'y', 'Int'], ['declare-fun', 'z', [], 'Int'],
    ['declare-const', 'a', 'Int'], ['declare-const', 'i1', 'Int'],
    ['declare-const', 'p', 'Bool'], ['declare-fun', 'q', [], 'Bool'], ['declare-const', 'r', 'Bool'],
    ['declare-const', 'bv1', ['_', 'BitVec', '8']], ['declare-const', 'bw', ['_', 'BitVec', '8']],
    ['declare-fun', 'v', [], ['_', 'BitVec', '8']],
    ['declare-fun', 'f', ['Int', 'Int'], 'Int'],
    ['define-fun', 'g', [['u', 'Int']], 'Bool', ['>', 'u', '0']],
]


@st.composite
def script(draw, min_asserts=1, max_asserts=8):
    t = terms()
    cmds = []
    if draw(st.booleans()):
        cmds.append(['set-logic', draw(st.sampled_from(['ALL', 'QF_BV', 'QF_UFLIA', 'QF_AUFBVLIA']))])
    if draw(st.booleans()):
        cmds.append(['set-info', ':status', draw(st.sampled_from(['sat', 'unsat', 'unknown']))])
    if draw(st.integers(0, 4)) == 0:
        cmds.append(['set-option', ':produce-models', 'true'])
    unicode_ = draw(st.integers(0, 3)) == 0
    if unicode_:
        # non-ASCII text is legal inside string literals, quoted symbols and comments
        cmds.append(['set-info', ':source', '|caf\u00e9 \u2200x \u65e5\u672c|'])
    cmds.extend(DECLS)
    n = draw(st.integers(min_asserts, max_asserts))
    for _ in range(n):
        kind = draw(st.integers(0, 9))
        if kind == 0:
            cmds.append(['assert', ['=', draw(st.sampled_from(INT_VARS)), draw(t['int'])]])
        elif kind == 1:
            cmds.append(['push', '1'])
        elif kind == 2:
            cmds.append(['define-fun', draw(st.sampled_from(['h1', 'h2'])), [], 'Int', draw(t['int'])])
        else:
            cmds.append(['assert', draw(t['bool'])])
    if draw(st.integers(0, 5)) == 0:
        cmds.append(['check-sat-assuming', ['p', 'q']])
    else:
        cmds.append(['check-sat'])
    if draw(st.booleans()):
        cmds.append(['get-model'])
    if draw(st.booleans()):
        cmds.append(['exit'])
    if unicode_:
        cmds.insert(len(cmds) - 1, ['assert', ['=', '"\u00fc\u00f1\u00ef \U0001f600"', '"\u00fc\u00f1\u00ef \U0001f600"']])
    lines = ['; \u00fcnic\u00f6d\u00e9 comment \u2713'] if unicode_ else []
    for c in cmds:
        if draw(st.integers(0, 14)) == 0:
            lines.append('; a comment (with parens) "and quotes"')
        lines.append(model.render(c))
    return '\n'.join(lines) + '\n'


# ------------------------------------------------------------------- specs

@st.composite
def spec_for(draw, text, kind=None, with_delay=False, hash_mods=(2, 3, 4)):
    """A spec that accepts the original ``text`` (pred true on it)."""
    toks = vspec.tokens_of_text(text)
    th = vspec.token_hash(toks)
    interesting = [t for t in dict.fromkeys(toks) if t not in '()']
    kind = kind or draw(st.sampled_from(['monotone', 'monotone', 'hash', 'hash', 'subseq', 'mixed', 'irreducible']))
    parts = []
    if kind == 'irreducible':
        # accepts (practically) only the original: nothing can be minimised, ddSMT
        # must say so and must not write an output file
        salt = draw(st.integers(0, 10**6))
        m = 1 << 40
        pred = ['hash', salt, m, [vspec.mix(th, salt) % m]]
        return dict(pred=pred, T=[0, 'sat\n', ''], F=[1, 'unsat\n', ''], noise=None, delay=None, fault=None,
                    directive=False)
    if interesting:
        k = draw(st.integers(1, 3))
        for _ in range(k):
            t = draw(st.sampled_from(interesting))
            c = toks.count(t)
            if c > 1 and draw(st.booleans()):
                parts.append(['count', draw(st.integers(2, c)), t])
            else:
                parts.append(['has', t])
    if kind in ('subseq', 'mixed') and len(interesting) >= 2:
        idx = sorted(draw(st.lists(st.integers(0, len(toks) - 1), min_size=2, max_size=3, unique=True)))
        parts.append(['subseq'] + [toks[i] for i in idx])
    if kind in ('hash', 'mixed'):
        m = draw(st.sampled_from(hash_mods))
        salt = draw(st.integers(0, 10**6))
        c = vspec.mix(th, salt) % m
        parts.append(['hash', salt, m, [c]])
        # monotone floor: without it a hash predicate lets the empty file through
        floor = max(2, len(toks) // draw(st.sampled_from([2, 3, 4, 6])))
        parts.append(['ntok', floor])
    if draw(st.integers(0, 5)) == 0:
        parts.append(['bal'])
    pred = ['and'] + parts if parts else ['true']
    tt = draw(st.sampled_from([[0, 'sat\n', ''], [1, 'unsat\n', 'error: boom\n'],
                               [3, 'unknown\n', 'Segmentation fault (simulated)\n'],
                               [0, '', 'assertion failed: x\n']]))
    ff = draw(st.sampled_from([[0, 'unsat\n', ''], [1, '', 'parse error\n'], [2, 'sat\n', ''],
                               [0, 'sat\n', 'warning\n']]))
    if tt == ff:
        ff = [tt[0] + 1, tt[1], tt[2]]
    if draw(st.integers(0, 7)) == 0:
        # the two answers differ in their line endings only (CR LF / CR / LF are different bytes)
        base = draw(st.sampled_from(['sat', 'unsat: core', 'error at line 1']))
        e1, e2 = draw(st.sampled_from([('\r\n', '\n'), ('\n', '\r\n'), ('\r', '\n'), ('\n', '\n\n')]))
        k = draw(st.sampled_from([1, 2]))
        tt, ff = [0, '', ''], [0, '', '']
        tt[k], ff[k] = base + e1, base + e2
    sp = dict(pred=pred, T=tt, F=ff, noise=None, delay=None, fault=None, directive=False)
    if with_delay:
        sp['delay'] = [draw(st.integers(0, 10**6)), draw(st.sampled_from([[0, 1, 5, 20], [0, 0, 2, 10], [0, 3]]))]
    return sp


@st.composite
def comparison(draw, spec, golden_ev):
    """Comparison options consistent with the golden run (match strings occur)."""
    o = {}
    mode = draw(st.sampled_from(['exact', 'exact', 'ignore-output', 'ignore-out', 'ignore-err',
                                 'match-out', 'match-err', 'noise-out', 'noise-err']))
    g_out, g_err = golden_ev['out'], golden_ev['err']
    if mode == 'ignore-output':
        o['ignore_output'] = True
    elif mode == 'ignore-out':
        o['ignore_out'] = True
    elif mode == 'ignore-err':
        o['ignore_err'] = True
    elif mode == 'match-out' and g_out.strip():
        o['match_out'] = g_out.strip()[:draw(st.integers(2, 6))]
    elif mode == 'match-err' and g_err.strip():
        o['match_err'] = g_err.strip().split(':')[0]
    return mode, o


def add_noise(draw, spec, mode):
    """noise modes: token-dependent noise on a stream that is then ignored or matched."""
    if mode == 'noise-out':
        spec['noise'] = ['o', draw(st.integers(0, 999)), 5]
        return dict(ignore_out=True) if draw(st.booleans()) or not spec['T'][1].strip() else \
            dict(match_out=spec['T'][1].strip())
    if mode == 'noise-err':
        spec['noise'] = ['e', draw(st.integers(0, 999)), 5]
        return dict(ignore_err=True) if draw(st.booleans()) or not spec['T'][2].strip() else \
            dict(match_err=spec['T'][2].strip().split(':')[0])
    return {}


@st.composite
def run_case(draw, strategies=('ddmin', 'hierarchical', 'hybrid'), jobs=(1, 2, 4),
             formats=('default', 'pretty', 'wrap'), with_cc=True, with_delay=True,
             comparisons=True, max_asserts=6, kinds=None, mutator_subsets=False, mixed_inputs=False):
    src = draw(st.sampled_from(['script', 'script', 'typed', 'lexical'])) if mixed_inputs else 'script'
    if src == 'typed':
        from . import gen_typed
        ts = draw(gen_typed.script(dict(depth=2, max_asserts=min(3, max_asserts), trap_names=True)))
        text = model.render_list(ts.cmds) + '\n'
    elif src == 'lexical':
        # a script with non-standard layout: comments, CRLF, tabs, long and quoted tokens
        from . import gen_lex
        base = draw(script(1, min(3, max_asserts)))
        extra, _, _ = gen_lex.render(draw(gen_lex.top(max_items=3, max_leaves=8, top_atoms=False)))
        text = base.replace('\n', draw(st.sampled_from(['\n', '\r\n', '\n\t', ' \n']))) + extra + '\n'
    else:
        text = draw(script(1, max_asserts))
    if draw(st.integers(0, 3)) == 0:
        # long atoms that occur more than once: symbols, binary constants, string literals
        sym = 'a_rather_long_symbol_name_with_more_than_32_characters'
        bits = '#b' + format(draw(st.integers(0, 2**40 - 1)), '040b')
        lit = '"a string literal that is longer than thirty-two characters"'
        text += (f'(declare-const {sym} (_ BitVec 40))\n(assert (= {sym} (bvand {sym} {bits})))\n'
                 f'(assert (distinct {bits} (bvnot {sym})))\n(assert (= {lit} (str.++ {lit} "")))\n')
    tab_tok = None
    if draw(st.integers(0, 4)) == 0:
        # white space inside tokens is content: a TAB in a string literal / quoted symbol
        tab_tok = draw(st.sampled_from(['"col1\tcol2  two blanks"', '|q\tq  s|']))
        text += f'(assert (= x_tab {tab_tok}))\n'
    sp = draw(spec_for(text, kind=draw(st.sampled_from(kinds)) if kinds else None, with_delay=with_delay))
    if tab_tok and sp['pred'][0] != 'hash' and draw(st.booleans()):
        # ... which the command insists on
        sp['pred'] = ['and', sp['pred'], ['has', tab_tok]]
    opts = dict(strategy=draw(st.sampled_from(strategies)), jobs=draw(st.sampled_from(jobs)), timeout=30)
    fmt = draw(st.sampled_from(formats))
    if fmt == 'pretty':
        opts['pretty_print'] = True
    elif fmt == 'wrap':
        opts['wrap_lines'] = True
    mode = 'exact'
    if comparisons:
        mode = draw(st.sampled_from(['exact', 'exact', 'ignore-output', 'ignore-out', 'ignore-err',
                                     'match-out', 'match-err', 'noise-out', 'noise-err']))
        if mode.startswith('noise'):
            opts.update(add_noise(draw, sp, mode))
        else:
            gev = vspec.evaluate(sp, vspec.tokens_of_text(text))
            if mode == 'ignore-output':
                opts['ignore_output'] = True
            elif mode == 'ignore-out':
                opts['ignore_out'] = True
            elif mode == 'ignore-err':
                opts['ignore_err'] = True
            elif mode == 'match-out' and gev['out'].strip():
                opts['match_out'] = gev['out'].strip()[:draw(st.integers(2, 6))]
            elif mode == 'match-err' and gev['err'].strip():
                opts['match_err'] = gev['err'].strip().split(':')[0]
    spec_cc = None
    if with_cc and draw(st.integers(0, 3)) == 0:
        spec_cc = draw(spec_for(text, kind='monotone'))
        spec_cc['T'], spec_cc['F'] = [0, 'cc-ok\n', ''], [1, 'cc-differs\n', 'cc err\n']
        if draw(st.booleans()):
            opts['ignore_output_cc'] = True
        elif draw(st.booleans()):
            opts['match_out_cc'] = 'cc-ok'
            # the cross check may differ from its golden run in stdout only
            spec_cc['F'] = draw(st.sampled_from([[1, 'cc-differs\n', 'cc err\n'], [0, 'cc-differs\n', '']]))
        else:
            # exact comparison: a difference in one stream only is a difference
            spec_cc['F'] = draw(st.sampled_from([[1, 'cc-differs\n', 'cc err\n'], [0, 'cc-differs\n', ''],
                                                 [0, 'cc-ok\n', 'cc err\n']]))
    if spec_cc is not None and draw(st.integers(0, 2)) == 0:
        # the main command's --ignore-output says nothing about the cross check
        for k in ('match_out', 'match_err', 'ignore_out', 'ignore_err'):
            opts.pop(k, None)
        opts['ignore_output'] = True
        mode = 'ignore-output'
    if mutator_subsets:
        opts['extra_argv'] = draw(mutator_options())
    # options that must not influence any property: debugging aids, variable order
    misc = []
    if draw(st.integers(0, 4)) == 0:
        misc += ['--replace-by-variable-mode', 'dec']
    if draw(st.integers(0, 5)) == 0:
        misc += ['--dump-diffs']
    if misc:
        opts['misc_argv'] = misc
    return dict(text=text, spec=sp, spec_cc=spec_cc, opts=opts, mode=mode, fmt=fmt, source=src)


GROUPS = ['core', 'arithmetic', 'bv', 'boolean', 'datatypes', 'fp', 'smtlib', 'strings']
SOME_MUTATORS = ['constants', 'erase-node', 'merge-children', 'substitute-children', 'replace-by-variable',
                 'sort-children', 'binary-reduction', 'eliminate-variables', 'inline-functions',
                 'introduce-fresh-variables', 'let-elimination', 'let-substitution', 'simplify-symbol-names',
                 'simplify-quoted-symbols', 'arith-constants', 'bv-norm-constants', 'bv-simp-constants',
                 'bool-de-morgan', 'bool-double-negations', 'check-sat-assuming', 'remove-annotation']


@st.composite
def mutator_options(draw):
    mode = draw(st.sampled_from(['all', 'all', 'disable-some', 'only-some', 'no-groups']))
    if mode == 'all':
        return []
    if mode == 'disable-some':
        return ['--no-' + m for m in draw(st.lists(st.sampled_from(SOME_MUTATORS), min_size=1, max_size=5, unique=True))]
    if mode == 'only-some':
        return ['--disable-all'] + ['--' + m for m in
                                    draw(st.lists(st.sampled_from(SOME_MUTATORS), min_size=2, max_size=7, unique=True))]
    return ['--no-' + g for g in draw(st.lists(st.sampled_from(GROUPS), min_size=1, max_size=3, unique=True))]
