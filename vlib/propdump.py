"""Run in a FRESH interpreter (python propdump.py <input file>): parse the input,
optionally add declarations whose names collide with the fresh-variable names of
this very process, enumerate every proposal of every mutator and print one line
per proposal: <mutator> <node index> <sha1 of the rendered candidate>.

In a fresh process node ids are assigned in parse order, so two runs on the same
file see the same ids; the output must not depend on PYTHONHASHSEED, addresses or
the pid (C18: candidate order is defined by insertion and BFS/DFS order only)."""
import hashlib
import os
import sys

REPO = os.environ.get('VERIF_REPO', '/repo')
sys.path.insert(0, REPO)
infile = sys.argv[1]
collide = len(sys.argv) > 2 and sys.argv[2] == 'collide'
sys.argv = ['ddsmt', infile, '/dev/null', '/bin/true']
from ddsmt import cli, mutators, mutator_utils, nodeio, nodes, smtlib  # noqa: E402
import logging  # noqa: E402

cli.setup_logging()
logging.getLogger().setLevel(logging.CRITICAL)
with open(infile, newline='') as f:
    exprs = list(nodeio.parse_smtlib(f.read()))
smtlib.collect_information(exprs)
muts = []
for theory, (mod, ms) in mutators.get_all_mutators().items():
    for cname in ms:
        muts.append((cname, getattr(mod, cname)()))
if collide:
    from ddsmt import mutators_smtlib
    ifv = mutators_smtlib.IntroduceFreshVariable()
    extra = []
    for n in nodes.bfs(exprs):
        try:
            if ifv.filter(n) and len(extra) < 6:
                extra.append(nodes.Node('declare-const', f'x{n.id}__fresh', 'Bool'))
        except Exception:  # noqa
            pass
    exprs = exprs + extra
    smtlib.collect_information(exprs)
out = []
for idx, node in enumerate(nodes.bfs(exprs)):
    for name, m in muts:
        props = []
        try:
            if hasattr(m, 'filter') and not m.filter(node):
                continue
            if hasattr(m, 'mutations'):
                props.extend(m.mutations(node))
            if hasattr(m, 'global_mutations'):
                props.extend(m.global_mutations(node, exprs))
        except Exception:  # noqa
            pass
        for simp in props:
            try:
                res = mutator_utils.apply_simp(exprs, simp)
                text = nodeio.write_smtlib_to_str(res)
            except Exception as e:  # noqa
                text = 'ERR ' + type(e).__name__
            out.append(f'{name} {idx} {hashlib.sha1(text.encode()).hexdigest()[:12]} {text[:0]}')
            if len(out) < 0:
                pass
sys.stdout.write('\n'.join(out) + '\n')
