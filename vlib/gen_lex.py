"""G-lex: generated SMT-LIB *texts* with known structure (DESIGN.md §3).

A drawn *item tree* is rendered to text with drawn separators; the expected
reader result (nested lists of token texts, comments as leaves without their
line terminator) is known by construction.

Item = dict(k='atom', cls=<class>, t=<text>, sep=<ws before>)
     | dict(k='list', items=[...], sep=<ws before '('>, csep=<ws before ')'>)
     | dict(k='comment', t=';...', sep=<ws before>, term='\\n'|'\\r\\n')
"""
from hypothesis import strategies as st

SYM_START = 'abcdefghijklmnopqrstuvwxyzABCDEFGHIJKLMNOPQRSTUVWXYZ~!@$%^&*_-+=<>.?/'
SYM_CHARS = SYM_START + '0123456789'

WS_CHOICES = [' ', '\t', '\n', '\r', '\r\n', '  ', ' \n ', '\n\n', '\t ']

ATOM_CLASSES = [
    'symbol', 'hyphen', 'long', 'numeral', 'decimal', 'binary', 'hex',
    'keyword', 'string', 'string-special', 'string-empty', 'quoted',
    'quoted-special', 'reserved'
]

KNOWN_WORDS = [
    'assert', 'declare-const', 'declare-fun', 'define-fun', 'set-logic',
    'set-info', 'check-sat', 'let', 'forall', 'exists', '_', '!', 'and', 'or',
    'not', '=', '+', '-', 'bvadd', 'concat', 'extract', 'BitVec', 'Int',
    'Bool', 'true', 'false', 'x', 'y', 'f', 'par', 'as', 'str.++'
]


def _text(alphabet, min_size, max_size):
    return st.text(alphabet=alphabet, min_size=min_size, max_size=max_size)


def _symbol():
    return st.one_of(
        st.sampled_from(KNOWN_WORDS),
        st.builds(lambda a, b: a + b, st.sampled_from(SYM_START),
                  _text(SYM_CHARS, 0, 10)))


def _hyphen():
    part = _text('abcdefghijklmnopqrstuvwxyz0123456789', 1, 12)
    return st.lists(part, min_size=2, max_size=8).map(
        lambda ps: ('x' + '-'.join(ps)))


def _long():
    return st.builds(
        lambda a, n, h: 'L' + (a * (n + 79 // len(a))) + h,
        _text('abcdefghij_-.', 1, 6), st.integers(0, 20),
        st.sampled_from(['', '-tail', '.end', '_z']))


STR_PLAIN = 'abcdefghijklmnopqrstuvwxyzABC0123456789_-.'
STR_SPECIAL = [
    ' ', '  ', '(', ')', ';', '|', '\n', '""', '\t', '\\', 'é', '∀', '\\x41',
    '\\u{1F600}', 'a', 'b c', '-', ' ; ', '(x)', '""""', '\r\n',
    # content that looks like layout: comment lines, empty lines, indentation, command breaks
    '\n; c\n\n', '\n;\n\n\n', '\n\n', '\n  (', ')\n(', '; c\n', ' \n '
]
Q_SPECIAL = [
    ' ', '  ', '(', ')', ';', '"', '\n', '\t', 'é', 'a', 'b c', '-', ' ; ',
    '(x)', '""', '"a"', '\r\n',
    '\n; c\n\n', '\n;\n\n\n', '\n\n', '\n  (', ')\n(', '; c\n', ' \n '
]


def _string_special():
    return st.lists(st.one_of(st.sampled_from(STR_SPECIAL),
                              _text(STR_PLAIN, 1, 6)),
                    min_size=1,
                    max_size=12).map(lambda ps: '"' + ''.join(ps) + '"')


def _quoted_special():
    return st.lists(st.one_of(st.sampled_from(Q_SPECIAL),
                              _text(STR_PLAIN, 1, 6)),
                    min_size=1,
                    max_size=12).map(lambda ps: '|' + ''.join(ps) + '|')


def atom_text(cls):
    if cls == 'symbol':
        return _symbol()
    if cls == 'hyphen':
        return _hyphen()
    if cls == 'long':
        return _long()
    if cls == 'numeral':
        return st.one_of(st.sampled_from(['0', '1', '7', '42', '007']),
                         _text('0123456789', 1, 30))
    if cls == 'decimal':
        return st.builds(lambda a, b: a + '.' + b, _text('0123456789', 1, 8),
                         _text('0123456789', 1, 8))
    if cls == 'binary':
        return _text('01', 1, 70).map(lambda s: '#b' + s)
    if cls == 'hex':
        return _text('0123456789abcdefABCDEF', 1, 20).map(lambda s: '#x' + s)
    if cls == 'keyword':
        return st.one_of(st.sampled_from([':named', ':status', ':pattern']),
                         _text(SYM_CHARS, 1, 8).map(lambda s: ':' + s))
    if cls == 'string':
        return _text(STR_PLAIN, 1, 12).map(lambda s: '"' + s + '"')
    if cls == 'string-special':
        return _string_special()
    if cls == 'string-empty':
        return st.just('""')
    if cls == 'quoted':
        return st.one_of(
            _text(STR_PLAIN, 1, 12).map(lambda s: '|' + s + '|'),
            st.just('||'))
    if cls == 'quoted-special':
        return _quoted_special()
    if cls == 'reserved':
        return st.sampled_from(['_', '!', 'as', 'let', 'par', 'BINARY'])
    raise ValueError(cls)


_SEP = st.sampled_from(['', '', '', ' ', ' ', ' '] + WS_CHOICES)


def sep():
    return _SEP


_ATOM_ITEM = None


def atom_item():
    global _ATOM_ITEM
    if _ATOM_ITEM is None:
        sp = sep()
        _ATOM_ITEM = st.one_of(*[
            st.builds(lambda t, s, c=c: dict(k='atom', cls=c, t=t, sep=s),
                      atom_text(c), sp) for c in ATOM_CLASSES
        ])
    return _ATOM_ITEM


COMMENT_CHARS = STR_PLAIN + ' ()"|;\t'


def comment_item():
    return st.builds(
        lambda t, s, term: dict(k='comment', t=';' + t, sep=s, term=term),
        _text(COMMENT_CHARS, 0, 20), sep(), st.sampled_from(['\n', '\n',
                                                             '\r\n']))


def items(max_leaves=40, comments=True):
    leaf = st.one_of(atom_item(), atom_item(), atom_item(),
                     comment_item()) if comments else atom_item()

    def ext(children):
        return st.builds(
            lambda its, s, cs: dict(k='list', items=its, sep=s, csep=cs),
            st.lists(children, min_size=0, max_size=6), sep(), sep())

    return st.recursive(leaf, ext, max_leaves=max_leaves)


def top(max_items=6, max_leaves=30, comments=True, top_atoms=True):
    """A whole text: list of top-level items + trailing white space."""
    lst = st.builds(
        lambda its, s, cs: dict(k='list', items=its, sep=s, csep=cs),
        st.lists(items(max_leaves, comments), min_size=0, max_size=8), sep(),
        sep())
    choices = [lst, lst, lst]
    if comments:
        choices.append(comment_item())
    if top_atoms:
        choices.append(atom_item())
    return st.builds(lambda its, tr: dict(items=its, trail=tr),
                     st.lists(st.one_of(*choices), min_size=0,
                              max_size=max_items),
                     st.sampled_from(['', '\n', ' ', '\r\n', '\n\n', '\t']))


ATOMISH = ('atom', )


def render(doc):
    """-> (text, expected nested lists, set of classes present)."""
    out = []
    classes = set()

    def emit_items(its, prev):
        """prev in 'start','open','close','atom','sep' ; returns
        (expected list, prev)"""
        exp = []
        for it in its:
            s = it['sep']
            if it['k'] == 'atom':
                if prev == 'atom' and s == '':
                    s = ' '
                out.append(s)
                out.append(it['t'])
                exp.append(it['t'])
                classes.add(it['cls'])
                if s == '' and prev in ('open', 'close'):
                    classes.add('atom-directly-after-paren')
                if '\r' in s:
                    classes.add('sep-CR')
                if '\t' in s:
                    classes.add('sep-TAB')
                prev = 'atom'
            elif it['k'] == 'comment':
                out.append(s)
                out.append(it['t'])
                out.append(it['term'])
                exp.append(it['t'])
                classes.add('comment')
                if prev == 'open' and s == '':
                    classes.add('comment-directly-after-open')
                if prev == 'atom' and s == '':
                    classes.add('comment-directly-after-atom')
                if it['term'] == '\r\n':
                    classes.add('comment-CRLF')
                prev = 'sep'
            else:
                out.append(s)
                out.append('(')
                if s == '' and prev == 'atom':
                    classes.add('open-directly-after-atom')
                sub, p2 = emit_items(it['items'], 'open')
                out.append(it['csep'])
                out.append(')')
                if it['csep'] == '' and p2 == 'atom':
                    classes.add('close-directly-after-atom')
                if not it['items']:
                    classes.add('empty-list')
                exp.append(sub)
                prev = 'close'
        return exp, prev

    exp, prev = emit_items(doc['items'], 'start')
    out.append(doc['trail'])
    text = ''.join(out)
    if doc['items']:
        last = doc['items'][-1]
        if last['k'] == 'atom' and doc['trail'] == '':
            classes.add('top-atom-at-eof')
        if last['k'] == 'atom':
            classes.add('top-atom')
    for it in doc['items']:
        if it['k'] == 'atom':
            classes.add('top-atom')
            if it['cls'].startswith('string') or it['cls'].startswith(
                    'quoted'):
                classes.add('top-literal')
        if it['k'] == 'comment':
            classes.add('top-comment')
    return text, exp, classes


def norm_comment(s):
    """Comment leaf modulo its line terminator."""
    if s.startswith(';'):
        if s.endswith('\n'):
            s = s[:-1]
        if s.endswith('\r'):
            s = s[:-1]
    return s


def norm_tree(t):
    """Normalise comment leaves in a nested-list tree (iteratively safe for the
    depths generated here)."""
    if isinstance(t, str):
        return norm_comment(t)
    return [norm_tree(c) for c in t]


# ------------------------------------------------------------------ finite part

REPRESENTATIVES = {
    'symbol': 'abc',
    'hyphen': 'x-y-z',
    'long': 'L' + 'abcdefgh-' * 10,
    'numeral': '42',
    'decimal': '1.50',
    'binary': '#b0101',
    'hex': '#xA0f',
    'keyword': ':named',
    'string': '"abc"',
    'string-special': '"a ""b"" (c) ;d | e\nf"',
    'string-empty': '""',
    'quoted': '|abc|',
    'quoted-special': '|a "b" (c) ;d\ne|',
    'list': None,
    'empty-list': None,
}

FIN_SEPS = ['', ' ', '\t', '\n', '\r', '\r\n', ';c\n', ' ;c\r\n']
FIN_POS = ['top', 'inlist', 'after-open', 'before-close', 'eof']


def finite_cases():
    """Every ordered pair of lexeme classes x separator x position.

    Yields dict(text=..., expected=..., key=...).  Pairs of two atom-like
    lexemes with an *empty* separator are skipped (the statement says
    'separated by white space')."""
    classes = list(REPRESENTATIVES)

    def one(c):
        if c == 'list':
            return '(q r)', ['q', 'r'], False
        if c == 'empty-list':
            return '()', [], False
        return REPRESENTATIVES[c], REPRESENTATIVES[c], True

    for lc in classes:
        for rc in classes:
            lt, le, latom = one(lc)
            rt, re_, ratom = one(rc)
            for s in FIN_SEPS:
                if s == '' and latom and ratom:
                    continue
                mid_exp = [le] + ([';c'] if ';' in s else []) + [re_]
                mid = lt + s + rt
                for pos in FIN_POS:
                    if pos == 'top':
                        text, exp = mid + '\n', mid_exp
                    elif pos == 'eof':
                        text, exp = mid, mid_exp
                    elif pos == 'inlist':
                        text, exp = '(a ' + mid + ' b)\n', [['a'] + mid_exp +
                                                            ['b']]
                    elif pos == 'after-open':
                        text, exp = '(' + mid + ' b)\n', [mid_exp + ['b']]
                    else:
                        text, exp = '(a ' + mid + ')\n', [['a'] + mid_exp]
                    yield dict(text=text,
                               expected=exp,
                               key=f'{lc}·{s!r}·{rc}·{pos}')
