"""Command specs: the Python twin of vlib/oracle_cmd.c.

A spec is a JSON-able dict

  pred      : expr            boolean expression over the token sequence
  T, F      : [exit, out, err] outcome when pred holds / does not hold
  noise     : [stream('o'|'e'), salt, mod] | None
  delay     : [salt, [ms, ...]] | None
  fault     : [salt, mod, {class(str): kind}] | None   kind in s p a v k
  directive : bool

expr ::= ['has', tok] | ['count', k, tok] | ['subseq', tok...] | ['ntok', n]
       | ['bal'] | ['nest', d] | ['hash', salt, mod, [k...]]
       | ['and', e...] | ['or', e...] | ['not', e] | ['true']
"""
import os
import re
import subprocess

from . import refreader

MASK = (1 << 64) - 1
FNV_OFF = 1469598103934665603
FNV_PRIME = 1099511628211

FRESH = re.compile(r'^x[0-9]+__fresh$')

HERE = os.path.dirname(os.path.abspath(__file__))
ORACLE_BIN = os.path.join(os.path.dirname(HERE), 'bin', 'oracle_cmd')


def fnv(h, data: bytes):
    for b in data:
        h ^= b
        h = (h * FNV_PRIME) & MASK
    return h


def token_hash(tokens, canon=True):
    """FNV-1a over the token sequence.  ``canon`` (as the C program does for
    the command's hash atom and log) maps x<digits>__fresh to one name; content
    digests of histories use canon=False."""
    h = FNV_OFF
    for t in tokens:
        if canon and FRESH.match(t):
            t = 'x#__fresh'
        h = fnv(h, t.encode('utf-8', 'surrogateescape'))
        h = fnv(h, b'\0')
    return h


def mix(h, salt):
    z = (h + salt * 0x9E3779B97F4A7C15 + 0x9E3779B97F4A7C15) & MASK
    z = ((z ^ (z >> 30)) * 0xBF58476D1CE4E5B9) & MASK
    z = ((z ^ (z >> 27)) * 0x94D049BB133111EB) & MASK
    return z ^ (z >> 31)


def tokens_of_text(text):
    return refreader.tokens_lenient(text)


def eval_pred(e, toks, th):
    op = e[0]
    if op == 'has':
        return e[1] in toks
    if op == 'count':
        return toks.count(e[2]) >= e[1]
    if op == 'subseq':
        j = 0
        for t in e[1:]:
            try:
                j = toks.index(t, j) + 1
            except ValueError:
                return False
        return True
    if op == 'ntok':
        return len(toks) >= e[1]
    if op == 'bal':
        d = 0
        ok = True
        for t in toks:
            if t == '(':
                d += 1
            elif t == ')':
                d -= 1
                if d < 0:
                    ok = False
        return ok and d == 0
    if op == 'nest':
        d = mx = 0
        for t in toks:
            if t == '(':
                d += 1
                mx = max(mx, d)
            elif t == ')':
                d -= 1
        return mx >= e[1]
    if op == 'hash':
        return (mix(th, e[1]) % e[2]) in e[3]
    if op == 'and':
        return all(eval_pred(x, toks, th) for x in e[1:])
    if op == 'or':
        return any(eval_pred(x, toks, th) for x in e[1:])
    if op == 'not':
        return not eval_pred(e[1], toks, th)
    if op == 'true':
        return True
    raise ValueError(op)


def evaluate(spec, toks, role='main'):
    """-> dict(truth, exit, out, err, fault, delay_ms, tokhash)"""
    th = token_hash(toks)
    truth = eval_pred(spec['pred'], toks, th)
    exit_, out, err = spec['T'] if truth else spec['F']
    tr = 1 if truth else 0
    if spec.get('directive'):
        for j in range(len(toks) - 6):
            if (toks[j] == '(' and toks[j + 1] == 'behave' and toks[j + 2] == role
                    and len(toks[j + 4]) >= 2 and len(toks[j + 5]) >= 2):
                try:
                    exit_ = int(re.match(r'\s*[+-]?\d+', toks[j + 3]).group())
                except AttributeError:
                    exit_ = 0
                out, err = toks[j + 4][1:-1], toks[j + 5][1:-1]
                tr = 2
                break
    fault = None
    if spec.get('fault'):
        salt, mod, classes = spec['fault']
        fault = classes.get(str(mix(th, salt) % mod))
    delay = 0
    if spec.get('delay'):
        salt, ms = spec['delay']
        delay = ms[mix(th, salt) % len(ms)]
    if spec.get('noise'):
        stream, salt, mod = spec['noise']
        noise = f'noise={mix(th, salt) % mod}\n'
        if stream == 'o':
            out += noise
        else:
            err += noise
    return dict(truth=tr, exit=exit_, out=out, err=err, fault=fault,
                delay_ms=delay, tokhash=th)


def hx(s):
    b = s.encode() if isinstance(s, str) else s
    return b.hex() if b else '-'


def compile_pred(e, out):
    op = e[0]
    if op == 'has':
        out.append(f'HAS {hx(e[1])}')
    elif op == 'count':
        out.append(f'COUNT {e[1]} {hx(e[2])}')
    elif op == 'subseq':
        out.append(f'SUBSEQ {len(e) - 1} ' + ' '.join(hx(t) for t in e[1:]))
    elif op == 'ntok':
        out.append(f'NTOK {e[1]}')
    elif op == 'bal':
        out.append('BAL')
    elif op == 'nest':
        out.append(f'NEST {e[1]}')
    elif op == 'hash':
        out.append(f'HASH {e[1]} {e[2]} {len(e[3])} ' + ' '.join(map(str, e[3])))
    elif op in ('and', 'or'):
        for x in e[1:]:
            compile_pred(x, out)
        out.append(f'{op.upper()} {len(e) - 1}')
    elif op == 'not':
        compile_pred(e[1], out)
        out.append('NOT')
    elif op == 'true':
        out.append('TRUE')
    else:
        raise ValueError(op)


def compile_spec(spec):
    out = []
    compile_pred(spec['pred'], out)
    for name in 'TF':
        ex, o, e = spec[name]
        out.append(f'{name} {ex} {hx(o)} {hx(e)}')
    if spec.get('noise'):
        out.append('NOISE {} {} {}'.format(*spec['noise']))
    if spec.get('delay'):
        salt, ms = spec['delay']
        out.append(f'DELAY {salt} {len(ms)} ' + ' '.join(map(str, ms)))
    if spec.get('fault'):
        salt, mod, classes = spec['fault']
        out.append(f'FAULT {salt} {mod} {len(classes)} ' +
                   ' '.join(f'{c}:{k}' for c, k in sorted(classes.items())))
    if spec.get('directive'):
        out.append('DIRECTIVE')
    return '\n'.join(out) + '\n'


def write_spec(spec, path):
    with open(path, 'w') as f:
        f.write(compile_spec(spec))
    return path


def cmdline(spec_path, log_path, role='main', extra=()):
    """argv of the command under test (without the file)."""
    # 'main' and 'cc' are two different programs with the same file name in different
    # directories (each refuses to act for the other)
    special = os.path.join(os.path.dirname(ORACLE_BIN), role, 'oracle_cmd')
    binary = special if role in ('main', 'cc') and os.path.exists(special) else ORACLE_BIN
    return [binary, '--spec', spec_path, '--log', log_path, '--role', role] + list(extra)


def run_oracle(spec_path, log_path, file, role='main', extra=(), timeout=20):
    p = subprocess.run(cmdline(spec_path, log_path, role, extra) + [file],
                       capture_output=True, timeout=timeout)
    return p.returncode, p.stdout.decode('utf-8', 'replace'), p.stderr.decode('utf-8', 'replace')


def read_log(path):
    """-> list of dict(pid, role, tokhash, bytehash, ntok, truth, exit, fault, argv)"""
    out = []
    if not os.path.exists(path):
        return out
    with open(path, 'rb') as f:
        for line in f.read().split(b'\n'):
            if not line.strip():
                continue
            p = line.decode().split(' ')
            if len(p) < 9:
                continue
            argv = [bytes.fromhex(x).decode('utf-8', 'replace') if x != '-' else ''
                    for x in p[9:]]
            out.append(dict(pid=int(p[0]), role=p[1], tokhash=int(p[2], 16),
                            bytehash=int(p[3], 16), ntok=int(p[4]), truth=int(p[5]),
                            exit=int(p[6]), fault=None if p[7] == '-' else p[7],
                            argv=argv))
    return out


def selftest(workdir, cases):
    """Differential test C program vs Python twin on (spec, text) cases.
    Raises RuntimeError on disagreement (harness error)."""
    os.makedirs(workdir, exist_ok=True)
    for i, (spec, text) in enumerate(cases):
        sp = write_spec(spec, os.path.join(workdir, f'st{i}.spec'))
        fn = os.path.join(workdir, f'st{i}.smt2')
        with open(fn, 'w', newline='') as f:
            f.write(text)
        log = os.path.join(workdir, f'st{i}.log')
        want = evaluate(spec, tokens_of_text(text))
        if want['fault']:
            continue
        rc, out, err = run_oracle(sp, log, fn)
        if (rc, out, err) != (want['exit'], want['out'], want['err']):
            raise RuntimeError(
                f'oracle twin disagreement on {text!r} / {spec!r}: C=({rc},{out!r},{err!r}) '
                f'py=({want["exit"]},{want["out"]!r},{want["err"]!r})')
        lg = read_log(log)
        if not lg or lg[-1]['tokhash'] != want['tokhash']:
            raise RuntimeError(f'oracle twin hash disagreement on {text!r}')


def seq_with_comments(plain_list):
    """Flat sequence of a parsed list *including* comment leaves (normalised:
    without their line terminator)."""
    out = []
    stack = list(reversed(plain_list))
    while stack:
        t = stack.pop()
        if t is None:
            out.append(')')
        elif isinstance(t, str):
            if t.startswith(';'):
                t = t.rstrip('\n').rstrip('\r')
            out.append(t)
        else:
            out.append('(')
            stack.append(None)
            stack.extend(reversed(t))
    return out


def seq_with_comments_of_text(text):
    return seq_with_comments(refreader.read_lenient(text))


def full_digest_of_text(text):
    return '%016x' % token_hash(seq_with_comments_of_text(text), canon=False)
