"""G-sexpr: arbitrary s-expression trees as nested lists (``str | list``),
biased to the names ddSMT's mutators look at; plus DAG construction plans."""
from hypothesis import strategies as st

WORDS = [
    'assert', 'declare-const', 'declare-fun', 'define-fun', 'set-logic',
    'set-info', 'check-sat', 'check-sat-assuming', 'let', 'forall', 'exists',
    '_', '!', 'and', 'or', 'not', '=', '=>', 'xor', 'ite', 'distinct', '+',
    '-', '*', '<', '<=', 'bvadd', 'bvnot', 'bvneg', 'concat', 'extract',
    'zero_extend', 'BitVec', 'Int', 'Bool', 'Real', 'true', 'false', 'x', 'y',
    'z', 'f', 'g', '0', '1', '2', '#b01', '#x0f', '"a"', '""', '|q r|',
    ':named', 'a', 'b', 'c', 'QF_BV', 'str.++', 'declare-datatype', 'push'
]

leaf_text = st.one_of(
    st.sampled_from(WORDS), st.sampled_from(WORDS),
    st.text(alphabet='abcxyz01-_', min_size=1, max_size=6),
    st.text(min_size=1, max_size=5))


def tree(max_leaves=25, leaf=leaf_text, max_width=6):
    return st.recursive(leaf,
                        lambda ch: st.lists(ch, min_size=0, max_size=max_width),
                        max_leaves=max_leaves)


def nonleaf_tree(max_leaves=25, leaf=leaf_text, max_width=6):
    return st.lists(tree(max_leaves, leaf, max_width), min_size=0,
                    max_size=max_width)


def tree_list(max_items=5, max_leaves=20, leaf=leaf_text):
    return st.lists(tree(max_leaves, leaf), min_size=0, max_size=max_items)


def command_list(max_items=6, max_leaves=20):
    """Top-level list that looks like a script: a set-logic/set-info prefix
    (possibly empty) followed by commands."""
    prefix = st.lists(st.sampled_from([['set-logic', 'QF_BV'],
                                       ['set-info', ':status', 'sat'],
                                       ['set-info', ':source', '|x y|']]),
                      max_size=3)
    body = st.lists(st.one_of(
        nonleaf_tree(max_leaves),
        st.builds(lambda t: ['assert', t], tree(max_leaves)),
        st.builds(lambda n, s: ['declare-const', n, s],
                  st.sampled_from(['x', 'y', 'z', 'a']),
                  st.sampled_from(['Int', 'Bool', ['_', 'BitVec', '8']]))),
                    max_size=max_items)
    return st.builds(lambda p, b: p + b, prefix, body)


def deep_chain(depth, width=1, leaf='x'):
    """A chain of the given depth; each level has ``width`` leaf siblings."""
    t = leaf
    for i in range(depth):
        t = [f'op{i % 7}'] * width + [t]
    return t


def shaped_tree():
    """Deep / wide extremes (depth <= 200, width <= 300)."""
    return st.one_of(
        st.builds(deep_chain, st.integers(1, 200), st.integers(0, 3)),
        st.builds(lambda n, t: [t] * n, st.integers(0, 300),
                  st.sampled_from(['a', [], ['b', 'c']])),
        st.builds(lambda n, d: [deep_chain(d)] * n, st.integers(1, 20),
                  st.integers(1, 40)),
    )


# ------------------------------------------------------------------- DAGs

small_leaf = st.sampled_from(['a', 'b', 'x', '0', 'f', 'not', '=', 'assert'])


def dag_plan(max_items=5, max_leaves=16):
    """(list of trees over a small alphabet, list of reuse decisions)."""
    sub = tree(max_leaves, small_leaf, 4)
    # repeat some subtrees on purpose so that reuse is possible
    items = st.lists(sub, min_size=1, max_size=max_items).flatmap(
        lambda its: st.lists(st.sampled_from(its) | st.builds(
            lambda a, b: [a, b], st.sampled_from(its), st.sampled_from(its)),
                             min_size=1, max_size=max_items + 2))
    return st.tuples(items, st.lists(st.booleans(), min_size=1, max_size=40))


def build_dag(dd, plains, decisions):
    """Build Nodes for a list of plain trees; whenever a structurally equal
    node was built before, the next decision says whether to reuse that very
    object.  Returns (list of Nodes, set of shared kinds)."""
    import json
    Node = dd.nodes.Node
    memo = {}
    kinds = set()
    idx = [0]

    def decide():
        d = decisions[idx[0] % len(decisions)]
        idx[0] += 1
        return d

    def build(t, top=False):
        key = json.dumps(t)
        if key in memo and decide():
            if isinstance(t, str):
                kinds.add('leaf')
            elif not t:
                kinds.add('empty-list')
            else:
                kinds.add('subtree')
            if top:
                kinds.add('top-level-item')
            return memo[key]
        if isinstance(t, str):
            n = Node(t)
        else:
            ch = [build(c) for c in t]
            n = Node(*ch) if ch else Node()
        memo[key] = n
        return n

    return [build(t, True) for t in plains], kinds


# ----------------------------------------------------------------- damage

@st.composite
def damaged(draw, trees_strategy, max_ops=4):
    """Turn a (well-formed) list of trees into the shapes delta debugging
    reaches: delete / duplicate / swap children, replace a subtree by () or a
    leaf, drop trailing arguments, unwrap a node into its parent."""
    import copy
    trees = copy.deepcopy(draw(trees_strategy))
    nops = draw(st.integers(1, max_ops))
    ops = []
    for _ in range(nops):
        paths = [(i, ) + p for i, t in enumerate(trees) for p, s in _paths(t)]
        if not paths:
            break
        p = draw(st.sampled_from(paths))
        op = draw(st.sampled_from(['delete', 'dup', 'swap', 'empty', 'leaf', 'truncate', 'unwrap',
                                   'wrap', 'delete', 'truncate']))
        ops.append(op)
        parent = trees if len(p) == 1 else _get(trees, p[:-1])
        i = p[-1]
        node = parent[i]
        if op == 'delete':
            del parent[i]
        elif op == 'dup':
            parent.insert(i, copy.deepcopy(node))
        elif op == 'swap' and len(parent) >= 2:
            j = draw(st.integers(0, len(parent) - 1))
            parent[i], parent[j] = parent[j], parent[i]
        elif op == 'empty':
            parent[i] = []
        elif op == 'leaf':
            parent[i] = draw(st.sampled_from(['x', '0', '_', 'let', '#b', '""', 'bv', '1.', 'Int']))
        elif op == 'truncate' and isinstance(node, list) and node:
            k = draw(st.integers(0, len(node) - 1))
            del node[k:]
        elif op == 'unwrap' and isinstance(node, list):
            parent[i:i + 1] = node
        elif op == 'wrap':
            parent[i] = [node]
    return trees, ops


def _paths(t, prefix=()):
    out = [(prefix, t)]
    if not isinstance(t, str):
        for i, c in enumerate(t):
            out.extend(_paths(c, prefix + (i, )))
    return out


def _get(trees, path):
    t = trees
    for i in path:
        t = t[i]
    return t
