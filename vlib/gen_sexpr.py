"""G-sexpr: arbitrary s-expression trees as nested lists (``str | list``),
biased to the names ddSMT's mutators look at; plus DAG construction plans."""
from hypothesis import strategies as st

WORDS = [
    'assert', 'declare-const', 'declare-fun', 'define-fun', 'set-logic',
    'set-info', 'check-sat', 'check-sat-assuming', 'let', 'forall', 'exists',
    '_', '!', 'and', 'or', 'not', '=', '=>', 'xor', 'ite', 'distinct', '+',
    '-', '*', '<', '<=', 'bvadd', 'bvnot', 'bvneg', 'concat', 'extract',
    'zero_extend', 'BitVec', 'Int', 'Bool', 'Real', 'true', 'false', 'x', 'y',
    'z', 'f', 'g', '0', '1', '2', '#b01', '#x0f', '"a"', '""', '|q r|',
    ':named', 'a', 'b', 'c', 'QF_BV', 'str.++', 'declare-datatype', 'push'
]

leaf_text = st.one_of(
    st.sampled_from(WORDS), st.sampled_from(WORDS),
    st.text(alphabet='abcxyz01-_', min_size=1, max_size=6),
    st.text(min_size=1, max_size=5))


def tree(max_leaves=25, leaf=leaf_text, max_width=6):
    return st.recursive(leaf,
                        lambda ch: st.lists(ch, min_size=0, max_size=max_width),
                        max_leaves=max_leaves)


def nonleaf_tree(max_leaves=25, leaf=leaf_text, max_width=6):
    return st.lists(tree(max_leaves, leaf, max_width), min_size=0,
                    max_size=max_width)


def tree_list(max_items=5, max_leaves=20, leaf=leaf_text):
    return st.lists(tree(max_leaves, leaf), min_size=0, max_size=max_items)


def command_list(max_items=6, max_leaves=20):
    """Top-level list that looks like a script: a set-logic/set-info prefix
    (possibly empty) followed by commands."""
    prefix = st.lists(st.sampled_from([['set-logic', 'QF_BV'],
                                       ['set-info', ':status', 'sat'],
                                       ['set-info', ':source', '|x y|']]),
                      max_size=3)
    body = st.lists(st.one_of(
        nonleaf_tree(max_leaves),
        st.builds(lambda t: ['assert', t], tree(max_leaves)),
        st.builds(lambda n, s: ['declare-const', n, s],
                  st.sampled_from(['x', 'y', 'z', 'a']),
                  st.sampled_from(['Int', 'Bool', ['_', 'BitVec', '8']]))),
                    max_size=max_items)
    return st.builds(lambda p, b: p + b, prefix, body)


def deep_chain(depth, width=1, leaf='x'):
    """A chain of the given depth; each level has ``width`` leaf siblings."""
    t = leaf
    for i in range(depth):
        t = [f'op{i % 7}'] * width + [t]
    return t


def shaped_tree():
    """Deep / wide extremes (depth <= 200, width <= 300)."""
    return st.one_of(
        st.builds(deep_chain, st.integers(1, 200), st.integers(0, 3)),
        st.builds(lambda n, t: [t] * n, st.integers(0, 300),
                  st.sampled_from(['a', [], ['b', 'c']])),
        st.builds(lambda n, d: [deep_chain(d)] * n, st.integers(1, 20),
                  st.integers(1, 40)),
    )


# ------------------------------------------------------------------- DAGs

small_leaf = st.sampled_from(['a', 'b', 'x', '0', 'f', 'not', '=', 'assert'])


def dag_plan(max_items=5, max_leaves=16):
    """(list of trees over a small alphabet, list of reuse decisions)."""
    sub = tree(max_leaves, small_leaf, 4)
    # repeat some subtrees on purpose so that reuse is possible
    items = st.lists(sub, min_size=1, max_size=max_items).flatmap(
        lambda its: st.lists(st.sampled_from(its) | st.builds(
            lambda a, b: [a, b], st.sampled_from(its), st.sampled_from(its)),
                             min_size=1, max_size=max_items + 2))
    return st.tuples(items, st.lists(st.booleans(), min_size=1, max_size=40))


def build_dag(dd, plains, decisions):
    """Build Nodes for a list of plain trees; whenever a structurally equal
    node was built before, the next decision says whether to reuse that very
    object.  Returns (list of Nodes, set of shared kinds)."""
    import json
    Node = dd.nodes.Node
    memo = {}
    kinds = set()
    idx = [0]

    def decide():
        d = decisions[idx[0] % len(decisions)]
        idx[0] += 1
        return d

    def build(t, top=False):
        key = json.dumps(t)
        if key in memo and decide():
            if isinstance(t, str):
                kinds.add('leaf')
            elif not t:
                kinds.add('empty-list')
            else:
                kinds.add('subtree')
            if top:
                kinds.add('top-level-item')
            return memo[key]
        if isinstance(t, str):
            n = Node(t)
        else:
            ch = [build(c) for c in t]
            n = Node(*ch) if ch else Node()
        memo[key] = n
        return n

    return [build(t, True) for t in plains], kinds
