"""Shared driver: sharding, seeding, bucketing, evidence, replay, known findings.

A *check module* (checks/cNN.py) provides

    PROPERTY = 'C07'
    LEVEL    = 'exploration'
    RULE     = '...how cases are generated; what makes one non-trivial...'
    ASSUMPTIONS = [...]
    def shard(ctx, acc):      # run this shard's share of the work, record in acc
    def replay(case, acc):    # re-run one stored case (no Hypothesis)
    NSHARDS = {'quick': 16, 'thorough': 16}   (optional)

Exit codes: 0 held (KNOWN-FINDING lines allowed), 1 + VIOLATION line, 2 harness error.
"""
import collections
import hashlib
import importlib
import json
import multiprocessing
import os
import re
import pickle
import shutil
import sys
import time
import traceback

VERIF = os.path.dirname(os.path.dirname(os.path.abspath(__file__)))
WORK = os.path.join(VERIF, '.work')


def digest(obj):
    return hashlib.sha1(
        json.dumps(obj, sort_keys=True, default=repr).encode()).hexdigest()[:16]


def jsonable(obj):
    try:
        json.dumps(obj)
        return obj
    except TypeError:
        return json.loads(json.dumps(obj, default=repr))


class Ctx:

    def __init__(self, prop, tier, seed, shard, nshards, workdir):
        self.prop = prop
        self.tier = tier
        self.seed = seed
        self.shard = shard
        self.nshards = nshards
        self.workdir = workdir

    @property
    def quick(self):
        return self.tier == 'quick'

    def hseed(self, salt=0):
        """Derived Hypothesis seed for this shard."""
        return (self.seed * 1000003 + self.shard * 7919 + salt) % (2**63)

    def share(self, total):
        """This shard's share of ``total`` cases."""
        base = total // self.nshards
        return base + (1 if self.shard < total % self.nshards else 0)



class BorrowedAcc:
    """Lets one property's check reuse another check's oracle: violations go to the real
    accumulator under ``prefix + key`` and carry ``case_tag`` (so that replay finds the
    borrowed oracle again); everything else is passed through, extras under a prefix."""

    def __init__(self, acc, prefix, case_tag, keep=None):
        self._acc, self._prefix, self._tag = acc, prefix, case_tag
        self._keep = keep  # predicate on the lender's violation keys (None: all)
        self.inconclusive = acc.inconclusive
        self.nontrivial = acc.nontrivial

    @property
    def violations(self):
        return self._acc.violations

    def violation(self, key, detail, case):
        if self._keep is not None and not self._keep(key):
            self._acc.count(self._prefix + 'other-property:' + key)
            return
        self._acc.violation(self._prefix + key, detail, dict(case, **self._tag))

    def case(self, case, nontrivial=False, classes=(), sample=None):
        self._acc.case(dict(case, **self._tag), nontrivial, [self._prefix + c for c in classes], sample)

    def count(self, cls, n=1):
        self._acc.count(self._prefix + cls, n)

    def skip(self, why, n=1):
        self._acc.skip(self._prefix + why, n)

    def add_extra(self, name, value):
        self._acc.add_extra(self._prefix + name, value)


class Acc:
    """Accumulates what one shard (or the merged run) covered."""

    MAX_SAMPLES = 6

    def __init__(self):
        self.evaluations = 0
        self.nontrivial = set()
        self.classes = collections.Counter()
        self.samples = []
        self.violations = {}  # key -> dict(count, detail, case, size)
        self.skipped = collections.Counter()
        self.extra = {}
        self.inconclusive = []

    def case(self, case, nontrivial=False, classes=(), sample=None):
        self.evaluations += 1
        for c in classes:
            self.classes[c] += 1
        if nontrivial:
            d = digest(case)
            if d not in self.nontrivial:
                self.nontrivial.add(d)
                if len(self.samples) < self.MAX_SAMPLES:
                    self.samples.append(
                        jsonable(sample if sample is not None else case))

    def count(self, cls, n=1):
        self.classes[cls] += n

    def skip(self, why, n=1):
        self.skipped[why] += n

    def violation(self, key, detail, case):
        case = jsonable(case)
        size = len(json.dumps(case))
        v = self.violations.get(key)
        if v is None:
            self.violations[key] = dict(count=1,
                                        detail=str(detail)[:2000],
                                        case=case,
                                        size=size)
        else:
            v['count'] += 1
            if size < v['size']:
                v.update(detail=str(detail)[:2000], case=case, size=size)

    def add_extra(self, name, value):
        """Numeric extras are summed on merge, lists concatenated (bounded)."""
        cur = self.extra.get(name)
        if cur is None:
            self.extra[name] = value
        elif isinstance(value, (int, float)):
            self.extra[name] = cur + value
        elif isinstance(value, list):
            self.extra[name] = (cur + value)[:50]
        elif isinstance(value, dict):
            for k, v in value.items():
                cur[k] = cur.get(k, 0) + v
        else:
            self.extra[name] = value

    def merge(self, other):
        self.evaluations += other.evaluations
        for d in other.nontrivial:
            self.nontrivial.add(d)
        self.classes.update(other.classes)
        for s in other.samples:
            if len(self.samples) < self.MAX_SAMPLES:
                self.samples.append(s)
        for k, v in other.violations.items():
            mine = self.violations.get(k)
            if mine is None:
                self.violations[k] = dict(v)
            else:
                mine['count'] += v['count']
                if v['size'] < mine['size']:
                    mine.update(detail=v['detail'],
                                case=v['case'],
                                size=v['size'])
        self.skipped.update(other.skipped)
        for k, v in other.extra.items():
            self.add_extra(k, v)
        self.inconclusive.extend(other.inconclusive)


def load_known():
    path = os.path.join(VERIF, 'known_findings.json')
    if not os.path.exists(path):
        return {'known': [], 'fixed': []}
    with open(path) as f:
        return json.load(f)


def known_for(prop):
    return [k for k in load_known().get('known', []) if k['property'] == prop]


def match_known(prop, key, known=None):
    known = known_for(prop) if known is None else known
    for k in known:
        if k['key'] == key:
            return k
    return None


def _shard_main(modname, ctx, outfile):
    acc = Acc()
    try:
        os.makedirs(ctx.workdir, exist_ok=True)
        mod = importlib.import_module(modname)
        if ctx.shard == 0:
            # replay tier: the stored failing case of every listed known finding
            for k in known_for(ctx.prop):
                if k.get('case') is not None:
                    mod.replay(k['case'], acc, ctx)
                    acc.count('known-finding-replays')
        mod.shard(ctx, acc)
        status = 'ok'
        err = None
    except BaseException:  # noqa
        status = 'error'
        err = traceback.format_exc()
    with open(outfile, 'wb') as f:
        pickle.dump((status, err, acc), f)
    sys.stdout.flush()
    sys.stderr.flush()
    os._exit(0)


def run_shards(modname, prop, tier, seed, nshards):
    # one work directory per invocation: two runs of the same check must not
    # delete each other's scratch files
    work = os.path.join(WORK, f'{prop}-{os.getpid()}')
    shutil.rmtree(work, ignore_errors=True)
    os.makedirs(work, exist_ok=True)
    mpctx = multiprocessing.get_context('fork')
    procs = []
    for s in range(nshards):
        ctx = Ctx(prop, tier, seed, s, nshards, os.path.join(work, f's{s}'))
        out = os.path.join(work, f'result{s}.pkl')
        p = mpctx.Process(target=_shard_main, args=(modname, ctx, out))
        p.daemon = False
        p.start()
        procs.append((p, out))
    merged = Acc()
    errors = []
    for p, out in procs:
        p.join()
        if not os.path.exists(out):
            errors.append(f'shard died without result (exit {p.exitcode})')
            continue
        with open(out, 'rb') as f:
            status, err, acc = pickle.load(f)
        if status != 'ok':
            errors.append(err)
        merged.merge(acc)
    shutil.rmtree(work, ignore_errors=True)
    return merged, errors


def write_replay(prop, key, v, seed, tier):
    os.makedirs(os.path.join(VERIF, 'replays'), exist_ok=True)
    safe = ''.join(c if c.isalnum() or c in '-_.' else '_' for c in key)[:80]
    name = f'{prop}-{safe}-{digest(key)[:6]}.json'
    path = os.path.join(VERIF, 'replays', name)
    with open(path, 'w') as f:
        json.dump(
            dict(property=prop,
                 key=key,
                 detail=v['detail'],
                 seed=seed,
                 tier=tier,
                 case=v['case']), f, indent=1)
    return path


def write_evidence(mod, prop, tier, seed, acc, wall, nviol, known_hits,
                   errors):
    cov = dict(
        evaluations=acc.evaluations,
        distinct_nontrivial=len(acc.nontrivial),
        rule=mod.RULE,
        samples=acc.samples[:Acc.MAX_SAMPLES],
        classes=dict(acc.classes.most_common(80)),
        skipped=dict(acc.skipped),
        buckets={
            k: dict(count=v['count'], detail=v['detail'][:300])
            for k, v in sorted(acc.violations.items())[:60]
        },
        known_findings_matched=sorted(known_hits),
        inconclusive=acc.inconclusive[:20],
    )
    for k, v in acc.extra.items():
        cov.setdefault(k, v)
    if getattr(mod, 'EXHAUSTIVE', None) is not None:
        ex = mod.EXHAUSTIVE
        cov['exhaustive'] = bool(ex(tier) if callable(ex) else ex)
    ev = dict(property_id=prop,
              tier=tier,
              seed=seed,
              level=mod.LEVEL,
              coverage=jsonable(cov),
              assumptions=list(getattr(mod, 'ASSUMPTIONS', [])),
              wall_s=round(wall, 2),
              violations=nviol)
    if errors:
        ev['coverage']['harness_errors'] = [e[-1500:] for e in errors][:5]
    evdir = os.environ.get('VERIF_EVIDENCE_DIR') or os.path.join(VERIF, 'evidence')
    os.makedirs(evdir, exist_ok=True)
    path = os.path.join(evdir, f'{prop}.json')
    tmp = path + '.tmp'
    with open(tmp, 'w') as f:
        json.dump(ev, f, indent=1, sort_keys=True)
    os.replace(tmp, path)


TIME_BASED = re.compile(r'(^|/)(hang|apply-hangs|no-answer|component-slow)')


def confirm_time_based(mod, prop, tier, seed, acc):
    """A bucket that rests on a CPU-time limit and was hit once or twice is replayed in a
    fresh accumulator before it is reported: a hang (endless loop, exponential blow-up)
    is a property of the input and shows again; a one-off on an oversubscribed machine does
    not and is recorded as inconclusive.  Buckets hit three times or more are reported as is."""
    for key in [k for k in acc.violations if TIME_BASED.search(k)]:
        v = acc.violations[key]
        if v['count'] >= 3:
            continue
        a2 = Acc()
        ctx = Ctx(prop, tier, seed, 0, 1, os.path.join(WORK, f'{prop}-confirm-{os.getpid()}'))
        os.makedirs(ctx.workdir, exist_ok=True)
        try:
            mod.replay(v['case'], a2, ctx)
        except BaseException:  # noqa  (cannot decide: keep the alarm)
            continue
        finally:
            shutil.rmtree(ctx.workdir, ignore_errors=True)
        if not any(TIME_BASED.search(k2) for k2 in a2.violations):
            acc.inconclusive.append(dict(why='time-based alarm not confirmed by a replay', key=key, detail=v['detail'][:300],
                                         case=v['case']))
            acc.skip('time-based alarm not confirmed by a replay: ' + key)
            del acc.violations[key]


def report(prop, acc, seed, tier):
    """Print KNOWN-FINDING / VIOLATION lines; returns (#unlisted, known hits)."""
    known = known_for(prop)
    nviol = 0
    hits = set()
    for key in sorted(acc.violations):
        v = acc.violations[key]
        k = match_known(prop, key, known)
        if k is not None:
            hits.add(key)
            continue
        path = write_replay(prop, key, v, seed, tier)
        nviol += 1
        print(f'VIOLATION property={prop} replay={path}')
        print(f'  key={key} count={v["count"]} detail={v["detail"][:400]}')
    for k in known:
        if k['key'] in hits:
            seen = f'seen {acc.violations[k["key"]]["count"]}x in this run'
        else:
            seen = 'not re-observed in this run'
        print(f'KNOWN-FINDING: property={prop} {k["what"]} [key={k["key"]}; {seen}]')
    return nviol, hits


def main(argv):
    import argparse
    ap = argparse.ArgumentParser()
    ap.add_argument('prop')
    ap.add_argument('--tier', default=os.environ.get('VERIF_TIER') or 'quick')
    ap.add_argument('--replay')
    ap.add_argument('--shards', type=int)
    args = ap.parse_args(argv)
    prop = args.prop.upper()
    tier = args.tier if args.tier in ('quick', 'thorough') else 'quick'
    try:
        seed = int(os.environ.get('VERIF_SEED') or '1')
    except ValueError:
        seed = 1
    modname = f'checks.{prop.lower()}'
    t0 = time.time()
    try:
        mod = importlib.import_module(modname)
        if args.replay:
            with open(args.replay) as f:
                rep = json.load(f)
            acc = Acc()
            ctx = Ctx(prop, tier, seed, 0, 1,
                      os.path.join(WORK, prop + '-replay'))
            os.makedirs(ctx.workdir, exist_ok=True)
            try:
                mod.replay(rep['case'], acc, ctx)
            finally:
                shutil.rmtree(ctx.workdir, ignore_errors=True)
            known = known_for(prop)
            bad = 0
            for key, v in sorted(acc.violations.items()):
                k = match_known(prop, key, known)
                if k:
                    print(f'KNOWN-FINDING: property={prop} {k["what"]} '
                          f'[key={key}]')
                else:
                    bad += 1
                    print(f'VIOLATION property={prop} replay={args.replay}')
                    print(f'  key={key} detail={v["detail"][:1500]}')
            if not acc.violations:
                print('replay: property held')
            return 1 if bad else 0
        nshards = args.shards or getattr(mod, 'NSHARDS', {}).get(tier, 16)
        acc, errors = run_shards(modname, prop, tier, seed, nshards)
        wall = time.time() - t0
        if errors:
            write_evidence(mod, prop, tier, seed, acc, wall, 0, set(), errors)
            print(f'HARNESS-ERROR property={prop}', file=sys.stderr)
            for e in errors[:3]:
                print(e, file=sys.stderr)
            return 2
        if hasattr(mod, 'finish'):
            mod.finish(acc, tier)
        confirm_time_based(mod, prop, tier, seed, acc)
        nviol, hits = report(prop, acc, seed, tier)
        write_evidence(mod, prop, tier, seed, acc,
                       time.time() - t0, nviol, hits, errors)
        print(f'{prop} {tier} seed={seed}: evaluations={acc.evaluations} '
              f'nontrivial={len(acc.nontrivial)} buckets={len(acc.violations)} '
              f'unlisted={nviol} skipped={dict(acc.skipped)} '
              f'wall={time.time() - t0:.1f}s')
        if nviol:
            return 1
        if len(acc.nontrivial) < 2 or acc.evaluations < 1:
            print(f'HARNESS-ERROR property={prop}: generator produced '
                  f'{len(acc.nontrivial)} non-trivial cases', file=sys.stderr)
            return 2
        return 1 if nviol else 0
    except SystemExit:
        raise
    except BaseException:  # noqa
        traceback.print_exc()
        print(f'HARNESS-ERROR property={prop}', file=sys.stderr)
        return 2


# ---------------------------------------------------------------- hypothesis

def hyp_run(ctx, strategy, body, max_examples, salt=0, shrink=False):
    """Run ``body(case)`` on ``max_examples`` draws of ``strategy``.

    ``body`` records into an Acc and must not raise for violations (collect,
    bucket, then shrink).  Every random choice is Hypothesis's, seeded from
    VERIF_SEED and the shard number.
    """
    import hypothesis
    from hypothesis import HealthCheck, Phase, given, settings

    phases = [Phase.generate]
    if shrink:
        phases.append(Phase.shrink)

    @hypothesis.seed(ctx.hseed(salt))
    @settings(max_examples=max_examples,
              database=None,
              deadline=None,
              derandomize=False,
              report_multiple_bugs=False,
              phases=phases,
              suppress_health_check=list(HealthCheck))
    @given(strategy)
    def test(case):
        body(case)

    test()


def hyp_shrink(ctx, strategy, predicate, max_examples=400, max_calls=3000,
               salt=99):
    """Find and shrink a case with ``predicate(case)`` true.  Returns the
    smallest (by JSON size) failing case seen, or None.  Bounded by calls, not
    by time."""
    import hypothesis
    from hypothesis import HealthCheck, Phase, given, settings

    state = dict(calls=0, best=None, size=None)

    class _Hit(Exception):
        pass

    @hypothesis.seed(ctx.hseed(salt))
    @settings(max_examples=max_examples,
              database=None,
              deadline=None,
              report_multiple_bugs=False,
              phases=[Phase.generate, Phase.shrink],
              suppress_health_check=list(HealthCheck))
    @given(strategy)
    def test(case):
        state['calls'] += 1
        if state['calls'] > max_calls:
            return
        if predicate(case):
            size = len(json.dumps(jsonable(case)))
            if state['size'] is None or size < state['size']:
                state['best'], state['size'] = case, size
            raise _Hit()

    try:
        test()
    except BaseException:  # noqa  (our _Hit, or Flaky after the call budget)
        pass
    return state['best']
