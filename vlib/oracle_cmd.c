/* oracle_cmd - the command under test for the ddSMT checks (DESIGN.md section 2).
 *
 *   oracle_cmd --spec S.txt --log L [--role R] [extra args ...] <file>
 *
 * Behaviour is a function of the TOKEN SEQUENCE of <file> only (comments and
 * white space do not matter), as C01 requires.  The spec is a line based
 * postfix program written by vlib/spec.py (the Python twin evaluates the same
 * program in-process; the two are compared in a self test).
 *
 * Spec lines:
 *   HAS <hextok> | COUNT <k> <hextok> | SUBSEQ <n> <hextok>... | NTOK <n> | BAL
 *   NEST <d> | HASH <salt> <mod> <n> <k>... | AND <n> | OR <n> | NOT | TRUE
 *   T <exit> <hexout> <hexerr>      outcome when the predicate holds
 *   F <exit> <hexout> <hexerr>      outcome otherwise
 *   NOISE <o|e> <salt> <mod>        append "noise=<h%mod>\n" to stdout/stderr
 *   DELAY <salt> <n> <ms>...        sleep ms[h % n] before answering
 *   FAULT <salt> <mod> <n> <cls>:<kind>...   kind: s(leep) t(sleep, SIGTERM ignored) h(print, then hang) p(spin) a(lloc) m(map shared) v(segv) k(ill) w(rapper with hanging child) w(rapper with hanging child)
 *   DIRECTIVE                       (behave <role> <exit> "<out>" "<err>") in the file wins
 * Hex strings may be "-" for the empty string.
 *
 * Log: one line per call, one write(2), O_APPEND:
 *   pid role tokhash bytehash ntok truth exit fault argc hex(argv1) ...
 */
#include <fcntl.h>
#include <signal.h>
#include <stdint.h>
#include <stdio.h>
#include <sys/mman.h>
#include <stdlib.h>
#include <string.h>
#include <unistd.h>

typedef struct { char *s; size_t n; } tok_t;
static tok_t *toks; static size_t ntok, captok;
static void push_tok(const char *s, size_t n) {
  if (ntok == captok) { captok = captok ? captok * 2 : 1024; toks = realloc(toks, captok * sizeof(tok_t)); }
  toks[ntok].s = malloc(n + 1); memcpy(toks[ntok].s, s, n); toks[ntok].s[n] = 0; toks[ntok].n = n; ntok++;
}
static int is_ws(char c) { return c == ' ' || c == '\t' || c == '\n' || c == '\r'; }

static void tokenize(const char *t, size_t n) {
  size_t pos = 0;
  while (pos < n) {
    char c = t[pos];
    if (is_ws(c)) { pos++; }
    else if (c == '(' || c == ')') { push_tok(t + pos, 1); pos++; }
    else if (c == ';') { while (pos < n && t[pos] != '\n') pos++; pos++; }
    else if (c == '"') {
      size_t i = pos + 1; int ok = 0;
      while (i < n) {
        if (t[i] == '"') { if (i + 1 < n && t[i + 1] == '"') { i += 2; continue; } ok = 1; break; }
        i++;
      }
      if (!ok) { push_tok("<unterminated>", 14); return; }
      push_tok(t + pos, i + 1 - pos); pos = i + 1;
    } else if (c == '|') {
      size_t i = pos + 1;
      while (i < n && t[i] != '|') i++;
      if (i >= n) { push_tok("<unterminated>", 14); return; }
      push_tok(t + pos, i + 1 - pos); pos = i + 1;
    } else {
      size_t i = pos;
      while (i < n && !is_ws(t[i]) && t[i] != '(' && t[i] != ')' && t[i] != ';' && t[i] != '"' && t[i] != '|') i++;
      push_tok(t + pos, i - pos); pos = i;
    }
  }
}

#define FNV_OFF 1469598103934665603ULL
#define FNV_PRIME 1099511628211ULL
static uint64_t fnv(uint64_t h, const char *s, size_t n) { for (size_t i = 0; i < n; i++) { h ^= (unsigned char)s[i]; h *= FNV_PRIME; } return h; }

/* x<digits>__fresh -> x#__fresh so that the hash does not depend on node ids */
static int is_fresh(const tok_t *t) {
  if (t->n < 9 || t->s[0] != 'x') return 0;
  size_t i = 1; while (i < t->n && t->s[i] >= '0' && t->s[i] <= '9') i++;
  if (i == 1) return 0;
  return t->n - i == 7 && memcmp(t->s + i, "__fresh", 7) == 0;
}
static uint64_t token_hash(void) {
  uint64_t h = FNV_OFF;
  for (size_t i = 0; i < ntok; i++) {
    if (is_fresh(&toks[i])) h = fnv(h, "x#__fresh", 9); else h = fnv(h, toks[i].s, toks[i].n);
    h = fnv(h, "\0", 1);
  }
  return h;
}
static uint64_t mix(uint64_t h, uint64_t salt) { /* splitmix64 finaliser */
  uint64_t z = h + salt * 0x9E3779B97F4A7C15ULL + 0x9E3779B97F4A7C15ULL;
  z = (z ^ (z >> 30)) * 0xBF58476D1CE4E5B9ULL; z = (z ^ (z >> 27)) * 0x94D049BB133111EBULL; return z ^ (z >> 31);
}

static char *unhex(const char *h, size_t *outn) {
  if (strcmp(h, "-") == 0) { *outn = 0; return strdup(""); }
  size_t n = strlen(h) / 2; char *o = malloc(n + 1);
  for (size_t i = 0; i < n; i++) { unsigned v; sscanf(h + 2 * i, "%2x", &v); o[i] = (char)v; }
  o[n] = 0; *outn = n; return o;
}
static int tok_eq(const tok_t *t, const char *s, size_t n) { return t->n == n && memcmp(t->s, s, n) == 0; }

typedef struct { int exit; char *out; size_t outn; char *err; size_t errn; } outcome_t;

int main(int argc, char **argv) {
  const char *spec = NULL, *logf = NULL, *role = "main";
  int i = 1;
  while (i < argc - 1) {
    if (!strcmp(argv[i], "--spec") && i + 1 < argc) { spec = argv[i + 1]; i += 2; }
    else if (!strcmp(argv[i], "--log") && i + 1 < argc) { logf = argv[i + 1]; i += 2; }
    else if (!strcmp(argv[i], "--role") && i + 1 < argc) { role = argv[i + 1]; i += 2; }
    else i++;
  }
  if (argc < 2 || !spec) { fprintf(stderr, "usage: oracle_cmd --spec S --log L [--role R] file\n"); return 97; }
#ifdef ONLY_ROLE
  /* bin/main/oracle_cmd and bin/cc/oracle_cmd: two different programs with the same file
     name; each refuses to act for the other (ddSMT must run the program it was given) */
  if (strcmp(role, ONLY_ROLE)) { fprintf(stderr, "oracle_cmd: WRONG BINARY: built for role %s, run as %s\n", ONLY_ROLE, role); return 95; }
#endif
  const char *file = argv[argc - 1];
  FILE *f = fopen(file, "rb");
  if (!f) { fprintf(stderr, "oracle_cmd: cannot open %s\n", file); return 98; }
  size_t cap = 1 << 16, n = 0; char *buf = malloc(cap);
  for (;;) { size_t r = fread(buf + n, 1, cap - n, f); n += r; if (r == 0) break; if (n == cap) { cap *= 2; buf = realloc(buf, cap); } }
  fclose(f);
  tokenize(buf, n);
  uint64_t th = token_hash(), bh = fnv(FNV_OFF, buf, n);

  /* evaluate the spec */
  FILE *sf = fopen(spec, "r");
  if (!sf) { fprintf(stderr, "oracle_cmd: cannot open spec %s\n", spec); return 99; }
  static int stack[256]; int sp = 0;
  outcome_t T = {0, strdup(""), 0, strdup(""), 0}, F = {1, strdup(""), 0, strdup(""), 0};
  int noise_stream = 0; uint64_t noise_salt = 0, noise_mod = 0;
  long delay_ms = 0; char fault = 0; int directive = 0;
  static char line[1 << 20];
  while (fgets(line, sizeof line, sf)) {
    char *save; char *op = strtok_r(line, " \n", &save);
    if (!op) continue;
    if (!strcmp(op, "HAS")) { size_t kn; char *k = unhex(strtok_r(NULL, " \n", &save), &kn); int r = 0; for (size_t j = 0; j < ntok && !r; j++) r = tok_eq(&toks[j], k, kn); stack[sp++] = r; }
    else if (!strcmp(op, "COUNT")) { long k = atol(strtok_r(NULL, " \n", &save)); size_t kn; char *t = unhex(strtok_r(NULL, " \n", &save), &kn); long c = 0; for (size_t j = 0; j < ntok; j++) c += tok_eq(&toks[j], t, kn); stack[sp++] = c >= k; }
    else if (!strcmp(op, "SUBSEQ")) { int m = atoi(strtok_r(NULL, " \n", &save)); size_t j = 0; int ok = 1; for (int q = 0; q < m; q++) { size_t kn; char *t = unhex(strtok_r(NULL, " \n", &save), &kn); while (j < ntok && !tok_eq(&toks[j], t, kn)) j++; if (j >= ntok) ok = 0; else j++; } stack[sp++] = ok; }
    else if (!strcmp(op, "NTOK")) { long k = atol(strtok_r(NULL, " \n", &save)); stack[sp++] = (long)ntok >= k; }
    else if (!strcmp(op, "BAL")) { long d = 0; int ok = 1; for (size_t j = 0; j < ntok; j++) { if (toks[j].n == 1 && toks[j].s[0] == '(') d++; else if (toks[j].n == 1 && toks[j].s[0] == ')') { d--; if (d < 0) ok = 0; } } stack[sp++] = ok && d == 0; }
    else if (!strcmp(op, "NEST")) { long k = atol(strtok_r(NULL, " \n", &save)); long d = 0, mx = 0; for (size_t j = 0; j < ntok; j++) { if (toks[j].n == 1 && toks[j].s[0] == '(') { d++; if (d > mx) mx = d; } else if (toks[j].n == 1 && toks[j].s[0] == ')') d--; } stack[sp++] = mx >= k; }
    else if (!strcmp(op, "HASH")) { uint64_t salt = strtoull(strtok_r(NULL, " \n", &save), NULL, 10), mod = strtoull(strtok_r(NULL, " \n", &save), NULL, 10); int m = atoi(strtok_r(NULL, " \n", &save)); uint64_t v = mix(th, salt) % mod; int r = 0; for (int q = 0; q < m; q++) if (strtoull(strtok_r(NULL, " \n", &save), NULL, 10) == v) r = 1; stack[sp++] = r; }
    else if (!strcmp(op, "AND")) { int m = atoi(strtok_r(NULL, " \n", &save)); int r = 1; for (int q = 0; q < m; q++) r &= stack[--sp]; stack[sp++] = r; }
    else if (!strcmp(op, "OR")) { int m = atoi(strtok_r(NULL, " \n", &save)); int r = 0; for (int q = 0; q < m; q++) r |= stack[--sp]; stack[sp++] = r; }
    else if (!strcmp(op, "NOT")) { stack[sp - 1] = !stack[sp - 1]; }
    else if (!strcmp(op, "TRUE")) { stack[sp++] = 1; }
    else if (!strcmp(op, "T") || !strcmp(op, "F")) { outcome_t *o = op[0] == 'T' ? &T : &F; o->exit = atoi(strtok_r(NULL, " \n", &save)); o->out = unhex(strtok_r(NULL, " \n", &save), &o->outn); o->err = unhex(strtok_r(NULL, " \n", &save), &o->errn); }
    else if (!strcmp(op, "NOISE")) { char *s = strtok_r(NULL, " \n", &save); noise_stream = s[0] == 'o' ? 1 : 2; noise_salt = strtoull(strtok_r(NULL, " \n", &save), NULL, 10); noise_mod = strtoull(strtok_r(NULL, " \n", &save), NULL, 10); }
    else if (!strcmp(op, "DELAY")) { uint64_t salt = strtoull(strtok_r(NULL, " \n", &save), NULL, 10); int m = atoi(strtok_r(NULL, " \n", &save)); uint64_t pick = mix(th, salt) % (uint64_t)m; for (int q = 0; q < m; q++) { long v = atol(strtok_r(NULL, " \n", &save)); if ((uint64_t)q == pick) delay_ms = v; } }
    else if (!strcmp(op, "FAULT")) { uint64_t salt = strtoull(strtok_r(NULL, " \n", &save), NULL, 10), mod = strtoull(strtok_r(NULL, " \n", &save), NULL, 10); int m = atoi(strtok_r(NULL, " \n", &save)); uint64_t v = mix(th, salt) % mod; for (int q = 0; q < m; q++) { char *e = strtok_r(NULL, " \n", &save); uint64_t c = strtoull(e, NULL, 10); char *col = strchr(e, ':'); if (col && c == v) fault = col[1]; } }
    else if (!strcmp(op, "DIRECTIVE")) { directive = 1; }
  }
  fclose(sf);
  int truth = sp > 0 ? stack[sp - 1] : 1;
  outcome_t *o = truth ? &T : &F;
  outcome_t D;
  if (directive) {
    size_t rn = strlen(role);
    for (size_t j = 0; j + 6 < ntok; j++) {
      if (tok_eq(&toks[j], "(", 1) && tok_eq(&toks[j + 1], "behave", 6) && tok_eq(&toks[j + 2], role, rn) && toks[j + 4].n >= 2 && toks[j + 5].n >= 2) {
        D.exit = atoi(toks[j + 3].s); D.out = toks[j + 4].s + 1; D.outn = toks[j + 4].n - 2; D.err = toks[j + 5].s + 1; D.errn = toks[j + 5].n - 2; o = &D; truth = 2; break;
      }
    }
  }
  /* log first (a call that then hangs or dies is still on record) */
  if (logf) {
    static char lb[1 << 16]; int p = snprintf(lb, sizeof lb, "%d %s %016llx %016llx %zu %d %d %c %d", (int)getpid(), role, (unsigned long long)th, (unsigned long long)bh, ntok, truth, o->exit, fault ? fault : '-', argc - 1);
    for (int a = 1; a < argc && p < (int)sizeof lb - 600; a++) { p += snprintf(lb + p, sizeof lb - p, " "); size_t l = strlen(argv[a]); if (l > 250) l = 250; if (l == 0) p += snprintf(lb + p, sizeof lb - p, "-"); for (size_t q = 0; q < l; q++) p += snprintf(lb + p, sizeof lb - p, "%02x", (unsigned char)argv[a][q]); }
    lb[p++] = '\n';
    int fd = open(logf, O_WRONLY | O_APPEND | O_CREAT, 0644);
    if (fd >= 0) { if (write(fd, lb, p) < 0) {} close(fd); }
  }
  if (delay_ms > 0) usleep((useconds_t)delay_ms * 1000);
  switch (fault) {
    case 't': signal(SIGTERM, SIG_IGN); /* a command that ignores SIGTERM (shell wrapper with trap '' TERM) */
    /* fall through */
    case 's': for (;;) sleep(1000);
    case 'w': { /* wrapper script: the hanging solver is a child that inherits our pipes */
      pid_t c = fork();
      if (c == 0) { execlp("sleep", "sleep", "987654", (char *)NULL); _exit(1); }
      for (;;) sleep(1000);
    }
    case 'h': { /* print the answer - at once, or ORACLE_LATE_MS milliseconds late - and then hang: what a
                   timed-out run had printed by its deadline is a matter of timing */
      const char *late = getenv("ORACLE_LATE_MS");
      if (late) usleep((useconds_t)atoi(late) * 1000);
      fwrite(o->out, 1, o->outn, stdout); fwrite(o->err, 1, o->errn, stderr);
      fflush(stdout); fflush(stderr);
      for (;;) sleep(1000);
    }
    case 'p': { volatile unsigned long x = 0; for (;;) x++; }
    case 'a': { /* allocate "without bound": 600 MB is three times any --memout the checks use; a run that
                   gets that far was not limited at all and then answers normally */
      for (int q = 0; q < 150; q++) { char *m = malloc(1 << 22); if (!m) abort(); memset(m, 1, 1 << 22); }
      break;
    }
    case 'm': { /* the same through shared anonymous mappings (not heap, not private): counted by an
                   address-space limit, invisible to a data-segment limit */
      for (int q = 0; q < 150; q++) {
        char *m = mmap(NULL, 1 << 22, PROT_READ | PROT_WRITE, MAP_SHARED | MAP_ANONYMOUS, -1, 0);
        if (m == MAP_FAILED) abort();
        memset(m, 1, 1 << 22);
      }
      break;
    }
    case 'v': raise(SIGSEGV); break;
    case 'k': raise(SIGKILL); break;
    default: break;
  }
  fwrite(o->out, 1, o->outn, stdout);
  fwrite(o->err, 1, o->errn, stderr);
  if (noise_stream) { FILE *ns = noise_stream == 1 ? stdout : stderr; fprintf(ns, "noise=%llu\n", (unsigned long long)(mix(th, noise_salt) % noise_mod)); }
  fflush(stdout); fflush(stderr);
  return o->exit;
}
