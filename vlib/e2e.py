"""One real ddSMT run -> RunRecord (DESIGN.md §2)."""
import hashlib
import json
import os
import re
import shutil
import signal
import subprocess
import sys
import time
import zlib

from . import rule
from . import spec as vspec

VERIF = os.path.dirname(os.path.dirname(os.path.abspath(__file__)))
REPO = os.environ.get('VERIF_REPO', '/repo')
PY = '/venv/bin/python'


class RunRecord:
    pass


def opts_to_argv(opts):
    """comparison / format / strategy options dict -> ddsmt argv fragment"""
    argv = []
    for flag in ('ignore_output', 'ignore_out', 'ignore_err', 'ignore_output_cc', 'unchecked',
                 'pretty_print', 'wrap_lines'):
        if opts.get(flag):
            argv.append('--' + flag.replace('_', '-'))
    for o in ('match_out', 'match_err', 'match_out_cc', 'match_err_cc'):
        if opts.get(o):
            argv += ['--' + o.replace('_', '-'), opts[o]]
    if opts.get('strategy'):
        argv += ['--strategy', opts['strategy']]
    if opts.get('jobs'):
        argv += ['-j', str(opts['jobs'])]
    if opts.get('timeout') is not None:
        argv += ['--timeout', str(opts['timeout'])]
    if opts.get('memout') is not None:
        argv += ['--memout', str(opts['memout'])]
    argv += list(opts.get('extra_argv', []))
    argv += list(opts.get('misc_argv', []))
    return argv


def sha(path):
    with open(path, 'rb') as f:
        return hashlib.sha256(f.read()).hexdigest()


def run_ddsmt(workdir, text, spec, opts, mode='blackbox', plan=None, spec_cc=None,
              ext='.smt2', hashseed='0', wall_limit=300, sigint_after=None, sigint_after_tests=None, verbosity=('-v', ),
              infile_name=None, keep=False, tmp_base=None, extra_env=None):
    """Run ddSMT once.  ``opts`` as for opts_to_argv (+ 'timeout' recommended).

    mode 'blackbox': bin/ddsmt as a subprocess.
    mode 'launcher': vlib/launcher.py with ``plan``.
    """
    r = RunRecord()
    if os.path.exists(workdir):
        shutil.rmtree(workdir, ignore_errors=True)
    os.makedirs(workdir)
    auto_base = None
    if not tmp_base and zlib.crc32(text.encode('utf-8', 'replace')) % 3 == 1 and os.path.isdir('/dev/shm') \
            and os.stat('/dev/shm').st_dev != os.stat(workdir).st_dev:
        # a third of the runs: ddSMT's temporary directory on another file system
        # than the input and output file (as /tmp often is)
        auto_base = tmp_base = f'/dev/shm/verif-e2e-{os.getpid()}'
    if tmp_base:
        # ddSMT's TMPDIR on another file system than the output file
        tmpdir = os.path.join(tmp_base, 'tmp-' + os.path.basename(workdir) + f'-{os.getpid()}')
        shutil.rmtree(tmpdir, ignore_errors=True)
    else:
        tmpdir = os.path.join(workdir, 'tmp')
    os.makedirs(tmpdir)
    crc = zlib.crc32(text.encode('utf-8', 'replace'))
    if infile_name is None and crc % 7 == 4:
        # a file name with blanks, parentheses and a non-ASCII letter
        infile_name = 'my input (1) ü' + ext
    infile = os.path.join(workdir, infile_name or ('input' + ext))
    # the candidates handed to the command carry the INPUT file's extension, whatever the output is called
    outfile = os.path.join(workdir, 'output' + (ext if crc % 4 != 1 else '.min'))
    with open(infile, 'w', newline='') as f:
        f.write(text)
    r.stale_left = False
    stale = None
    link = False
    if crc % 5 == 3:
        # the output file of an earlier run is still there
        stale = ';; output of an earlier run\n(stale (content))\n'
        with open(outfile, 'w', newline='') as f:
            f.write(stale)
    elif crc % 11 == 6:
        # the output name exists already - as a symbolic link to the input file
        os.symlink(os.path.basename(infile), outfile)
        link = True
    if verbosity == ('-v', ) and crc % 4 == 2:
        verbosity = ('-v', '-v')
    in_sha = sha(infile)
    sp = vspec.write_spec(spec, os.path.join(workdir, 'main.spec'))
    log = os.path.join(workdir, 'cmd.log')
    cmd = vspec.cmdline(sp, log, 'main')
    argv = list(verbosity) + opts_to_argv(opts)
    if spec_cc is not None:
        spc = vspec.write_spec(spec_cc, os.path.join(workdir, 'cc.spec'))
        # the cross-check command is ONE argument that ddSMT splits at white space: several
        # blanks or a tab between its words, and words holding quote characters, are legal
        ccwords = vspec.cmdline(spc, log, 'cc')
        if crc % 3:
            ccwords = ccwords + (["--tag=o'brien", 'say"hi'] if crc % 3 == 2 else ["it's"])
        argv += ['-c', ('  ' if crc % 2 else ' \t ').join(ccwords) if crc % 4 else ' '.join(ccwords)]
    # a third of the runs name the files and the command relative to the working directory
    relative = zlib.crc32(text.encode('utf-8', 'replace')) % 3 == 0
    r.infile_arg = os.path.basename(infile) if relative else infile
    if relative:
        cmd = [os.path.relpath(cmd[0], workdir)] + cmd[1:]
        argv += [os.path.basename(infile), os.path.basename(outfile)] + cmd
    else:
        argv += [infile, outfile] + cmd
    env = dict(os.environ)
    env.update(TMPDIR=tmpdir, PYTHONHASHSEED=str(hashseed), VERIF_REPO=REPO,
               PYTHONDONTWRITEBYTECODE='1')
    env.update(extra_env or {})
    if mode == 'blackbox':
        full = [PY, os.path.join(REPO, 'bin', 'ddsmt')] + argv
    else:
        trace_dir = os.path.join(workdir, 'trace')
        os.makedirs(trace_dir)
        planf = os.path.join(workdir, 'plan.json')
        with open(planf, 'w') as f:
            json.dump(plan or {}, f)
        full = [PY, os.path.join(VERIF, 'vlib', 'launcher.py'), '--dir', trace_dir, '--plan',
                planf, '--'] + argv
    t0 = time.time()
    p = subprocess.Popen(full, stdout=subprocess.PIPE, stderr=subprocess.PIPE, env=env,
                         cwd=workdir, start_new_session=True)
    r.pid = p.pid
    r.timed_out = False
    try:
        if sigint_after_tests is not None:
            # send SIGINT to the main process once the command has been run on
            # that many files (i.e. during minimisation, not during start-up)
            deadline = time.time() + wall_limit
            while p.poll() is None and time.time() < deadline:
                try:
                    with open(log, 'rb') as lf:
                        nlines = lf.read().count(b'\n')
                except FileNotFoundError:
                    nlines = 0
                if nlines >= sigint_after_tests:
                    os.kill(p.pid, signal.SIGINT)
                    r.sigint_sent = True
                    r.sigint_at_tests = nlines
                    break
                time.sleep(0.005)
            out, err = p.communicate(timeout=wall_limit)
        elif sigint_after is not None:
            try:
                out, err = p.communicate(timeout=sigint_after)
            except subprocess.TimeoutExpired:
                os.kill(p.pid, signal.SIGINT)
                r.sigint_sent = True
                out, err = p.communicate(timeout=wall_limit)
        else:
            out, err = p.communicate(timeout=wall_limit)
    except subprocess.TimeoutExpired:
        r.timed_out = True
        r.survivors_at_timeout = list_group(p.pid)
        try:
            r.log_idle_at_timeout = time.time() - os.path.getmtime(log)
        except OSError:
            r.log_idle_at_timeout = None
        try:
            os.killpg(p.pid, signal.SIGKILL)
        except ProcessLookupError:
            pass
        out, err = p.communicate()
    r.wall = time.time() - t0
    r.exit = p.returncode
    r.stdout = out.decode('utf-8', 'replace')
    r.stderr = err.decode('utf-8', 'replace')
    r.argv = argv
    r.infile, r.outfile, r.workdir = infile, outfile, workdir
    r.input_unchanged = os.path.exists(infile) and sha(infile) == in_sha
    r.out_text = None
    if link and os.path.islink(outfile):
        # nothing was written: the link is still there (and the input is what it points to)
        r.stale_left = True
    elif os.path.exists(outfile):
        with open(outfile, newline='') as f:
            r.out_text = f.read()
        if stale is not None and r.out_text == stale:
            # ddSMT wrote nothing: the old file is untouched, there is no output of this run
            r.out_text = None
            r.stale_left = True
    r.log = vspec.read_log(log)
    r.tmp_left = sorted(os.listdir(tmpdir))
    if tmp_base:
        shutil.rmtree(tmpdir, ignore_errors=True)
    if auto_base:
        try:
            os.rmdir(auto_base)
        except OSError:
            pass
    # give stragglers a moment, then look for survivors of the process group
    r.survivors = list_group(p.pid)
    if r.survivors:
        time.sleep(0.3)
        r.survivors = list_group(p.pid)
    r.extra_files = sorted(x for x in os.listdir(workdir)
                           if x not in ('tmp', 'trace', 'plan.json', 'main.spec', 'cc.spec', 'cmd.log',
                                        os.path.basename(infile), os.path.basename(outfile))
                           # --dump-diffs writes .simp-<n>.diff into the working directory by design
                           and not ('--dump-diffs' in argv and re.fullmatch(r'\.simp-[0-9]+\.diff', x)))
    r.trace = []
    r.after = None
    if mode != 'blackbox':
        td = os.path.join(workdir, 'trace')
        for fn in sorted(os.listdir(td)):
            if fn.startswith('trace-'):
                with open(os.path.join(td, fn)) as f:
                    for line in f:
                        try:
                            r.trace.append(json.loads(line))
                        except ValueError:
                            pass
        r.trace.sort(key=lambda e: e['t'])
        af = os.path.join(td, 'after.json')
        if os.path.exists(af):
            with open(af) as f:
                r.after = json.load(f)
    r.completed = 'No further simplification found' in r.stderr or \
        'unable to minimize input file' in r.stderr or 'reduced file:' in r.stderr
    if not keep:
        try:
            os.killpg(p.pid, signal.SIGKILL)
        except (ProcessLookupError, PermissionError):
            pass
    return r


def list_group(pgid):
    """pids (and cmdlines) of live processes in the given session/process group."""
    out = []
    for pid in os.listdir('/proc'):
        if not pid.isdigit():
            continue
        try:
            with open(f'/proc/{pid}/stat') as f:
                st = f.read()
            rest = st[st.rindex(')') + 2:].split()
            state, pgrp = rest[0], int(rest[2])
            if pgrp == pgid and state != 'Z':
                with open(f'/proc/{pid}/cmdline', 'rb') as f:
                    cl = f.read().replace(b'\0', b' ').decode('utf-8', 'replace')[:120]
                start = int(rest[19]) / os.sysconf('SC_CLK_TCK')
                with open('/proc/uptime') as f:
                    up = float(f.read().split()[0])
                try:
                    with open(f'/proc/{pid}/wchan') as f:
                        wchan = f.read().strip()
                except OSError:
                    wchan = '?'
                out.append((int(pid), state, cl, round(up - start, 2), wchan))
        except (OSError, ValueError):
            continue
    return out


def golden_of(spec, text, role='main'):
    ev = vspec.evaluate(spec, vspec.tokens_of_text(text), role)
    return ev


def outcome(ev):
    """evaluate() result -> (exit, out, err) as ddSMT's checker sees it."""
    if ev['fault'] in ('s', 't', 'h', 'p', 'a', 'm', 'w'):
        return (None, None, None)
    if ev['fault'] == 'v':
        return (-11, '', '')
    if ev['fault'] == 'k':
        return (-9, '', '')
    return (ev['exit'], ev['out'], ev['err'])


def accepted_by_model(spec, opts, orig_text, cand_text, spec_cc=None):
    """Independent verdict for a candidate text (C01 oracle a)."""
    g = outcome(golden_of(spec, orig_text))
    c = outcome(golden_of(spec, cand_text))
    gcc = ccc = None
    o = dict(opts)
    if spec_cc is not None:
        o['cmd_cc'] = True
        gcc = outcome(golden_of(spec_cc, orig_text, 'cc'))
        ccc = outcome(golden_of(spec_cc, cand_text, 'cc'))
    return rule.accepts_opts(o, g, c, gcc, ccc)
