"""Run ddsmt.__main__.main() from $VERIF_REPO with tracing / fault-injection
wrappers installed from /verif on module attributes.  ddSMT itself is not
modified.

    python launcher.py --dir DIR [--plan PLAN.json] -- <ddsmt command line>

PLAN.json (all optional):
  trace        : bool   record A/V/W/G events to DIR/trace-<pid>.jsonl
  delay        : [salt, [ms...]]  sleep f(candidate digest) around check_exprs
  interrupt_at : n      raise KeyboardInterrupt at the n-th traced line event
                        inside output-file rewrites (counted over the whole run)
  count_write_events : bool   only count those events (written to after.json)
  break_mutator: {cls, method, mod, salt}  make a mutator raise on some nodes
  break_apply  : {mod, salt}  make apply_simp raise for some candidates (inside the workers)
  observe_file : true  during every write of the output file, read the file at every traced line; contents other than the previous and the new one are listed in after.json 'torn'
  check_tables : true  at every ddmin TaskGenerator construction compare get_sort/get_bv_width of every node with the answers after a fresh collect_information; differences in after.json 'stale_answers'
  fail_write   : k  the k-th write of the output file raises OSError before anything is written
  keep_texts   : true  after.json gets 'writes_text', the rendering of every accepted input
  parse_only   : true  stop when the input has been read; after.json gets 'parsed' (nested lists)
  fixpoint     : {spec, opts}  after main(): enumerate every proposal on the
                        result of strategy_hierarchical.reduce and evaluate it
  stop_after_accepts : n  raise KeyboardInterrupt after n accepted steps
  interrupt_after_accept : n  (hierarchical) raise KeyboardInterrupt when the first result after the
                        n-th acceptance is processed in the main process
  stop_on_repeat : bool  stop (KeyboardInterrupt) when an output content repeats
  max_accepts  : n      stop when more than n contents were written
Result: DIR/after.json
"""
import json
import multiprocessing
import os
import sys
import time
import traceback

VERIF = os.path.dirname(os.path.dirname(os.path.abspath(__file__)))
REPO = os.environ.get('VERIF_REPO', '/repo')


def main():
    argv = sys.argv[1:]
    sep = argv.index('--')
    mine, dd_args = argv[:sep], argv[sep + 1:]
    d = mine[mine.index('--dir') + 1]
    plan = {}
    if '--plan' in mine:
        with open(mine[mine.index('--plan') + 1]) as f:
            plan = json.load(f)
    os.makedirs(d, exist_ok=True)
    multiprocessing.set_start_method('fork')
    sys.path.insert(0, REPO)
    sys.path.insert(1, VERIF)
    sys.argv = ['ddsmt'] + dd_args
    from ddsmt import __main__ as dmain  # noqa
    from ddsmt import (checker, cli, nodeio, nodes, options, strategy_ddmin,  # noqa
                       strategy_hierarchical, mutators, smtlib, mutator_utils)
    from vlib import model, refreader, spec as vspec

    main_pid = os.getpid()
    state = dict(accepts=0, write_events=0, writes=0, result=None, writes_log=[], writes_by=[], writes_text=[], accepted_log=[])

    def digest(exprs):
        """digest of the content *with* comments (erasing a comment is a
        legitimate step that changes the file but not the token sequence)"""
        return '%016x' % vspec.token_hash(vspec.seq_with_comments(model.to_plain(exprs)), canon=False)

    def tokdigest(exprs):
        return '%016x' % vspec.token_hash(refreader.flatten_top(model.to_plain(exprs)))

    def emit(ev):
        ev['pid'] = os.getpid()
        ev['t'] = time.monotonic()
        line = (json.dumps(ev) + '\n').encode()
        fd = os.open(os.path.join(d, f'trace-{os.getpid()}.jsonl'),
                     os.O_WRONLY | os.O_APPEND | os.O_CREAT, 0o644)
        try:
            os.write(fd, line)
        finally:
            os.close(fd)

    trace = plan.get('trace')

    # ---------------------------------------------------------------- A
    if trace:
        orig_apply = mutator_utils.apply_simp

        def apply_simp(exprs, simp):
            pre_ = {k: str(v) for k, v in simp.substs.items()}
            res = orig_apply(exprs, simp)
            try:
                if res is not None and isinstance(exprs, list):
                    b_, c_ = digest(exprs), digest(res)
                    emit(dict(e='A', base=b_, cand=c_, shared=not ids_distinct(res)))
                    if b_ == c_:
                        ids_ = {n.id: str(n) for n in nodes.dfs(exprs)}
                        emit(dict(e='NOOP', substs={str(ids_.get(k, k)): v for k, v in pre_.items()},
                                  fresh=[str(v) for v in simp.fresh_vars]))
            except Exception:  # noqa
                emit(dict(e='A-error', err=traceback.format_exc()[-300:]))
            return res

        strategy_ddmin.apply_simp = apply_simp
        strategy_hierarchical.apply_simp = apply_simp

    # ---------------------------------------------------------------- V
    orig_check = checker.check_exprs
    delay = plan.get('delay')

    def check_exprs(exprs):
        dg = None
        if trace or delay:
            dg = digest(exprs)
        if delay:
            salt, ms = delay
            time.sleep(ms[vspec.mix(int(dg, 16), salt) % len(ms)] / 1000.0)
        res = orig_check(exprs)
        if delay:
            salt, ms = delay
            time.sleep(ms[vspec.mix(int(dg, 16), salt + 1) % len(ms)] / 1000.0)
        if trace:
            emit(dict(e='V', cand=dg, tok=tokdigest(exprs), verdict=bool(res)))
        return res

    if trace or delay:
        checker.check_exprs = check_exprs

    # ---------------------------------------------------------------- W
    orig_write = nodeio.write_smtlib_to_file
    interrupt_at = plan.get('interrupt_at')
    count_events = plan.get('count_write_events')
    stop_after = plan.get('stop_after_accepts')
    nodeio_file = os.path.realpath(nodeio.__file__)

    def write_smtlib_to_file(filename, exprs):
        is_out = os.getpid() == main_pid
        if is_out:
            state['writes'] += 1
            dg = digest(exprs)
            state['writes_by'].append(state.get('current_mutator'))
            if plan.get('stop_on_repeat') or plan.get('keep_texts'):
                try:
                    state['writes_text'].append(nodeio.write_smtlib_to_str(exprs))
                except Exception:  # noqa
                    state['writes_text'].append(None)
            if plan.get('stop_on_repeat') and dg in state['writes_log']:
                # the run came back to an input it had already adopted: a cycle
                # (C03); stop here instead of looping until the wall limit
                state['writes_log'].append(dg)
                state['repeat'] = dg
                raise KeyboardInterrupt()
            if plan.get('max_accepts') and state['writes'] > plan['max_accepts']:
                state['too_many_accepts'] = True
                raise KeyboardInterrupt()
            state['writes_log'].append(dg)
            if trace:
                emit(dict(e='Wb', cand=dg, tok=tokdigest(exprs), n=state['writes'], ids_distinct=ids_distinct(exprs)))
            if plan.get('fail_write') == state['writes']:
                # the file system refuses this one write (disk full, directory gone, ...)
                state['write_failed'] = state['writes']
                raise OSError(28, 'No space left on device (injected by the harness)')
        observe = plan.get('observe_file')
        if is_out and observe:
            def snap():
                try:
                    with open(filename, 'rb') as f_:
                        return f_.read()
                except OSError:
                    return None
            before_bytes = snap()
            seen_bytes = set()
        if is_out and (interrupt_at is not None or count_events or observe):

            def tracer(frame, event, arg):
                if event in ('line', 'call', 'return'):
                    if observe:
                        # what another process would read at this instant
                        seen_bytes.add(snap())
                    state['write_events'] += 1
                    if interrupt_at is not None and state['write_events'] == interrupt_at:
                        sys.settrace(None)
                        state['interrupted_in_write'] = state['writes']
                        raise KeyboardInterrupt()
                return tracer

            sys.settrace(tracer)
            try:
                res = orig_write(filename, exprs)
            finally:
                sys.settrace(None)
            if observe:
                after_bytes = snap()
                for b in seen_bytes - {before_bytes, after_bytes}:
                    state.setdefault('torn', []).append(dict(write=state['writes'], size=None if b is None else len(b),
                                                             head=None if b is None else b[:80].decode('utf-8', 'replace')))
        else:
            res = orig_write(filename, exprs)
        if is_out:
            state['accepts'] += 1
            if trace:
                emit(dict(e='We', cand=dg, n=state['writes']))
            if stop_after is not None and state['accepts'] >= stop_after:
                state['stopped'] = True
                raise KeyboardInterrupt()
        return res

    nodeio.write_smtlib_to_file = write_smtlib_to_file

    # -------------------------------------- which mutator produced a write
    from ddsmt import debug_utils
    descr = {}
    for theory, (mod, muts_) in mutators.get_all_mutators().items():
        for cname in muts_:
            try:
                descr[str(getattr(mod, cname)())] = cname
            except Exception:  # noqa
                pass
    orig_dump = debug_utils.dump_diff

    def dump_diff(description, before, after_):
        d_ = description.replace('(global) ', '')
        state['current_mutator'] = descr.get(d_, descr.get(d_.split(' (')[0], d_))
        # this is the moment strategy hierarchical accepts a candidate
        try:
            state['accepted_log'].append(digest(after_))
        except Exception:  # noqa
            state['accepted_log'].append(None)
        if plan.get('interrupt_after_accept') == len(state['accepted_log']):
            state['armed'] = True
        return orig_dump(description, before, after_)

    # interrupt while the first result *after* the n-th acceptance is processed:
    # by then the accepted input must be in the output file
    if plan.get('interrupt_after_accept'):
        real_pickle = strategy_hierarchical.pickle

        class PickleShim:
            dumps = staticmethod(real_pickle.dumps)

            @staticmethod
            def loads(data):
                if state.get('armed') and os.getpid() == main_pid:
                    state['armed'] = False
                    state['interrupted_after_accept'] = len(state['accepted_log'])
                    raise KeyboardInterrupt()
                return real_pickle.loads(data)

        strategy_hierarchical.pickle = PickleShim

    debug_utils.dump_diff = dump_diff
    tg_init0 = strategy_ddmin.TaskGenerator.__init__

    def table_answers(exprs):
        out = []
        for n in nodes.dfs(exprs):
            try:
                so = smtlib.get_sort(n)
                so = None if so is None else str(so)
            except Exception:  # noqa
                so = 'raises'
            try:
                w = smtlib.get_bv_width(n)
            except Exception:  # noqa
                w = 'raises'
            out.append((so, w, n))
        return out

    def tg_init_names(self, exprs, gran, mutator, max_depth=None):
        state['current_mutator'] = type(mutator).__name__
        if plan.get('check_tables') and os.getpid() == main_pid:
            # proposals are about to be generated for ``exprs``: what the sort tables answer
            # now must be what they answer once they are collected from ``exprs`` itself
            try:
                before = table_answers(exprs)
                smtlib.collect_information(exprs)
                fresh = table_answers(exprs)
                for (s0, w0, n), (s1, w1, _) in zip(before, fresh):
                    # both answers definite and different: the fresh one is what the in-process
                    # part of C16 compares with the ground truth, so the other one is wrong
                    # ("unknown" on either side decides nothing)
                    if (s0 not in (None, 'raises') and s1 not in (None, 'raises') and s0 != s1) or \
                            (w0 not in (-1, 'raises') and w1 not in (-1, 'raises') and w0 != w1):
                        if len(state.setdefault('stale_answers', [])) < 5:
                            state['stale_answers'].append(dict(term=str(n)[:120], sort=s0, width=w0, fresh_sort=s1, fresh_width=w1,
                                                               mutator=type(mutator).__name__))
                state['table_checks'] = state.get('table_checks', 0) + 1
            except Exception:  # noqa
                state['table_check_errors'] = state.get('table_check_errors', 0) + 1
        return tg_init0(self, exprs, gran, mutator, max_depth)

    strategy_ddmin.TaskGenerator.__init__ = tg_init_names

    # ddmin adopts a result in TaskGenerator.update(): that is an acceptance whether or not a
    # write follows.  With interrupt_after_accept the interrupt comes at the next progress
    # report, i.e. after the statements that follow the adoption (the write among them).
    tg_update0 = strategy_ddmin.TaskGenerator.update

    def tg_update(self, exprs):
        res = tg_update0(self, exprs)
        if os.getpid() == main_pid:
            try:
                state['accepted_log'].append(digest(exprs))
            except Exception:  # noqa
                state['accepted_log'].append(None)
            if plan.get('interrupt_after_accept') == len(state['accepted_log']):
                state['armed_ddmin'] = True
        return res

    strategy_ddmin.TaskGenerator.update = tg_update
    progress0 = strategy_ddmin._print_progress

    def progress(msg, update=True):
        if state.get('armed_ddmin') and os.getpid() == main_pid:
            state['armed_ddmin'] = False
            state['interrupted_after_accept'] = len(state['accepted_log'])
            raise KeyboardInterrupt()
        return progress0(msg, update)

    strategy_ddmin._print_progress = progress

    # ---------------------------------------------------------------- G
    def ids_distinct(exprs):
        seen = set()
        stack = list(exprs)
        while stack:
            n = stack.pop()
            if n.id in seen:
                return False
            seen.add(n.id)
            if not n.is_leaf():
                stack.extend(n.data)
        return True

    if trace:
        tg_init = strategy_ddmin.TaskGenerator.__init__

        def tg_init_w(self, exprs, gran, mutator, max_depth=None):
            emit(dict(e='G', kind='TaskGenerator', mutators=[type(mutator).__name__],
                      ids_distinct=ids_distinct(exprs), base=digest(exprs)))
            return tg_init(self, exprs, gran, mutator, max_depth)

        strategy_ddmin.TaskGenerator.__init__ = tg_init_w
        pr_init = strategy_hierarchical.Producer.__init__

        def pr_init_w(self, muts, abort_flag, original):
            emit(dict(e='G', kind='Producer', mutators=[type(m).__name__ for m in muts],
                      ids_distinct=ids_distinct(original), base=digest(original)))
            return pr_init(self, muts, abort_flag, original)

        strategy_hierarchical.Producer.__init__ = pr_init_w

    # ------------------------------------ enabled mutators when minimisation starts
    # (what the command line and theory detection decided; a strategy must not change it)
    orig_detect = mutators.auto_detect_theories

    def detect(exprs):
        if plan.get('parse_only'):
            # what a real run has read from the input file (C08): record it and stop
            state['parsed'] = model.to_plain(list(exprs))
            raise KeyboardInterrupt()
        res = orig_detect(exprs)
        state['enabled_at_start'] = {k: v for k, v in vars(options.args()).items()
                                     if k.startswith('mutator_') or k.startswith('mutators_')}
        return res

    mutators.auto_detect_theories = detect

    # ---------------------------------------------------------------- R
    orig_reduce = strategy_hierarchical.reduce

    def reduce(exprs):
        res = orig_reduce(exprs)
        state['result'] = res[0]
        return res

    strategy_hierarchical.reduce = reduce

    # --------------------------------------------------- broken mutator
    bm = plan.get('break_mutator')
    if bm:
        for theory, (mod, muts) in mutators.get_all_mutators().items():
            if bm['cls'] in muts:
                cls = getattr(mod, bm['cls'])
                meth = bm['method']
                if hasattr(cls, meth):
                    orig_m = getattr(cls, meth)

                    def broken(self, node, *a, _o=orig_m, **k):
                        h = vspec.mix(vspec.token_hash(refreader.flatten(model.to_plain(node))), bm['salt'])
                        if h % bm['mod'] == 0:
                            raise RuntimeError('injected mutator failure')
                        return _o(self, node, *a, **k)

                    setattr(cls, meth, broken)

    # --------------------------------------- failing apply / check in workers
    ba = plan.get('break_apply')
    if ba:
        inner_apply_h = strategy_hierarchical.apply_simp
        inner_apply_d = strategy_ddmin.apply_simp

        def make_broken(inner):
            def broken_apply(exprs, simp):
                res = inner(exprs, simp)
                try:
                    h = vspec.mix(vspec.token_hash(refreader.flatten_top(model.to_plain(res))), ba['salt'])
                except Exception:  # noqa
                    h = 1
                if h % ba['mod'] == 0:
                    raise RuntimeError('injected apply failure')
                return res
            return broken_apply

        strategy_hierarchical.apply_simp = make_broken(inner_apply_h)
        strategy_ddmin.apply_simp = make_broken(inner_apply_d)

    # ------------------------------------------------------------ run
    t0 = time.time()
    rc = None
    err = None
    try:
        rc = dmain.main()
    except SystemExit as e:
        rc = e.code if isinstance(e.code, int) else (0 if e.code is None else 1)
        err = 'SystemExit'
    except BaseException:  # noqa
        err = traceback.format_exc()
        sys.stderr.write(err)
        rc = 70
    after = dict(rc=rc, err=err, wall=time.time() - t0, writes=state['writes'],
                 writes_log=state['writes_log'], writes_by=state['writes_by'], accepted_log=state['accepted_log'],
                 interrupted_after_accept=state.get('interrupted_after_accept'),
                 write_events=state['write_events'], accepts=state['accepts'],
                 interrupted_in_write=state.get('interrupted_in_write'),
                 stopped=state.get('stopped', False), repeat=state.get('repeat'),
                 too_many_accepts=state.get('too_many_accepts', False))

    for k_ in ('stale_answers', 'table_checks', 'table_check_errors'):
        if k_ in state:
            after[k_] = state[k_]
    if 'write_failed' in state:
        after['write_failed'] = state['write_failed']
    if plan.get('keep_texts'):
        after['writes_text'] = state['writes_text']
    if 'torn' in state:
        after['torn'] = state['torn'][:20]
    if 'parsed' in state:
        after['parsed'] = state['parsed']
    if state.get('repeat'):
        first_ = state['writes_log'].index(state['repeat'])
        after['cycle_texts'] = state['writes_text'][first_:]

    # ------------------------------------------------------- fixpoint
    fp = plan.get('fixpoint')
    if fp and rc == 0 and state['result'] is not None and os.getpid() == main_pid:
        try:
            from vlib import fixpoint
            after['fixpoint'] = fixpoint.enumerate_proposals(
                state['result'], fp, d, orig_apply if trace else mutator_utils.apply_simp,
                enabled=state.get('enabled_at_start'))
        except BaseException:  # noqa
            after['fixpoint_error'] = traceback.format_exc()
    if os.getpid() == main_pid:
        a = options.args()
        after['enabled_at_end'] = {k: v for k, v in vars(a).items()
                                   if k.startswith('mutator_') or k.startswith('mutators_')}
        after['enabled'] = state.get('enabled_at_start') or after['enabled_at_end']
        with open(os.path.join(d, 'after.json'), 'w') as f:
            json.dump(after, f)
    sys.stdout.flush()
    sys.stderr.flush()
    # normal interpreter exit (as bin/ddsmt): the TemporaryDirectory finalizer runs
    sys.exit(rc if isinstance(rc, int) else 1)


if __name__ == '__main__':
    main()
