"""G-typed: constructive, depth-bounded generator of well-sorted SMT-LIB scripts
with ground-truth sorts for every subterm (DESIGN.md section 3, appendix A).

Sorts are tuples: ('Bool',) ('Int',) ('Real',) ('BV', w) ('FP', eb, sb) ('RM',)
('String',) ('Array', I, E) ('DT', name) ('Seq', E).

A typed term is ``T(plain, sort, kids)`` with kids = [(relative path, T)] for the
positions inside ``plain`` that are themselves terms.
"""
from hypothesis import strategies as st

BOOL, INT, REAL, RM, STRING = ('Bool', ), ('Int', ), ('Real', ), ('RM', ), ('String', )

FP_SHORT = {(5, 11): 'Float16', (8, 24): 'Float32', (11, 53): 'Float64', (15, 113): 'Float128'}


def sort_plain(s, fp_long=False):
    k = s[0]
    if k in ('Bool', 'Int', 'Real', 'String'):
        return k
    if k == 'RM':
        return 'RoundingMode'
    if k == 'BV':
        return ['_', 'BitVec', str(s[1])]
    if k == 'FP':
        if not fp_long and (s[1], s[2]) in FP_SHORT:
            return FP_SHORT[(s[1], s[2])]
        return ['_', 'FloatingPoint', str(s[1]), str(s[2])]
    if k == 'Array':
        return ['Array', sort_plain(s[1]), sort_plain(s[2])]
    if k == 'DT':
        return s[1]
    if k == 'Seq':
        return ['Seq', sort_plain(s[1])]
    raise ValueError(s)


def sort_from_plain(p, dts=()):
    """Inverse of sort_plain (FP synonyms normalised); None if not a sort."""
    if isinstance(p, str):
        if p in ('Bool', 'Int', 'Real', 'String'):
            return (p, )
        if p == 'RoundingMode':
            return RM
        for (e, s), n in FP_SHORT.items():
            if p == n:
                return ('FP', e, s)
        if p in dts:
            return ('DT', p)
        return None
    try:
        if p[0] == '_' and p[1] == 'BitVec' and len(p) == 3:
            return ('BV', int(p[2]))
        if p[0] == '_' and p[1] == 'FloatingPoint' and len(p) == 4:
            return ('FP', int(p[2]), int(p[3]))
        if p[0] == 'Array' and len(p) == 3:
            a, b = sort_from_plain(p[1], dts), sort_from_plain(p[2], dts)
            return ('Array', a, b) if a and b else None
        if p[0] == 'Seq' and len(p) == 2:
            a = sort_from_plain(p[1], dts)
            return ('Seq', a) if a else None
    except (IndexError, ValueError, TypeError):
        return None
    return None


class T:
    __slots__ = ('plain', 'sort', 'kids', 'op')

    def __init__(self, plain, sort, kids=(), op=None):
        self.plain = plain
        self.sort = sort
        self.kids = list(kids)
        self.op = op


def app(op, args, sort, head=None):
    """(op a1 ... an): kids at positions 1..n.  ``head`` overrides the operator
    plain (indexed operators)."""
    h = head if head is not None else op
    return T([h] + [a.plain for a in args], sort, [((i + 1, ), a) for i, a in enumerate(args)],
             op if isinstance(op, str) else op)


class Script:
    """Result of the generator."""

    def __init__(self):
        self.cmds = []  # plain commands
        self.terms = []  # (absolute path, T) for top-level term positions
        self.consts = {}  # name -> sort
        self.funs = {}  # name -> (argsorts, ret)
        self.defs = {}  # name -> (formals [(n, s)], ret, body T)
        self.dts = {}  # dt name -> [(ctor, [(sel, sort)])]
        self.features = set()

    def all_terms(self):
        """Every (absolute path, T) in pre-order."""
        out = []
        stack = list(reversed(self.terms))
        while stack:
            p, t = stack.pop()
            out.append((p, t))
            for rp, k in reversed(t.kids):
                stack.append((p + rp, k))
        return out


BV_WIDTHS = [1, 2, 3, 4, 8, 16, 32, 64]
RM_CONSTS = ['RNE', 'RNA', 'RTP', 'RTN', 'RTZ']
STR_LITS = ['""', '"a"', '"abc"', '"a b"', '"say ""hi"""', '"x\\u{41}y"', '"back\\\\slash"', '"0123456789"',
            '"(paren) ; semi | bar"', '"""', ]
STR_LITS = [s for s in STR_LITS if s != '"""']


class Gen:

    def __init__(self, draw, profile):
        self.draw = draw
        self.p = profile
        self.s = Script()
        self.bound = []  # (name, sort) in scope
        self.counter = 0
        self.fp_sort = None
        self.arr_sort = None
        self.dt_name = None
        self.dt_extra = []

    # ------------------------------------------------------------ helpers
    def d(self, strategy):
        return self.draw(strategy)

    def pick(self, seq):
        return self.draw(st.sampled_from(list(seq)))

    def integer(self, lo, hi):
        return self.draw(st.integers(lo, hi))

    def fresh(self, prefix):
        self.counter += 1
        return f'{prefix}{self.counter}'

    def vars_of(self, sort):
        out = [n for n, s in self.bound if s == sort]
        out += [n for n, s in self.s.consts.items() if s == sort]
        return out

    # ------------------------------------------------------------ literals
    def bv_const(self, w):
        v = self.pick([0, 1, (1 << w) - 1, 1 << (w - 1), self.integer(0, (1 << w) - 1)]) & ((1 << w) - 1)
        forms = ['b', 'u']
        if w % 4 == 0:
            forms.append('x')
        f = self.pick(forms)
        self.s.features.add('bvconst-' + f)
        if f == 'b':
            return T('#b' + format(v, f'0{w}b'), ('BV', w), op='const')
        if f == 'x':
            h = format(v, f'0{w // 4}x')
            if self.draw(st.booleans()):
                h = h.upper()
            return T('#x' + h, ('BV', w), op='const')
        return T(['_', f'bv{v}', str(w)], ('BV', w), op='const')

    def literal(self, sort):
        k = sort[0]
        if k == 'Bool':
            return T(self.pick(['true', 'false']), BOOL, op='const')
        if k == 'Int':
            return T(self.pick(['0', '1', '2', '7', '10', '42', '100', str(self.integer(0, 300))]), INT, op='const')
        if k == 'Real':
            return T(self.pick(['0.0', '1.0', '1.5', '2.25', '10.0', '0.5', '3.75']), REAL, op='const')
        if k == 'BV':
            return self.bv_const(sort[1])
        if k == 'RM':
            return T(self.pick(RM_CONSTS), RM, op='const')
        if k == 'String':
            return T(self.pick(STR_LITS), STRING, op='const')
        if k == 'FP':
            e, s = sort[1], sort[2]
            if self.integer(0, 3) == 0:
                # fp takes arbitrary bit-vector terms, not only constants
                self.s.features.add('fp-literal-with-terms')
                return app('fp', [self.bv_const(1), self.term(('BV', e), 1), self.term(('BV', s - 1), 1)], sort)
            return app('fp', [self.bv_const(1), self.bv_const(e), self.bv_const(s - 1)], sort)
        if k == 'DT':
            nullary = [c for c, f in self.s.dts[sort[1]] if not f]
            return T(self.pick(nullary), sort, op='ctor0')
        if k == 'Seq':
            return app('seq.unit', [self.literal(sort[1])], sort)
        if k == 'Array':
            vs = self.vars_of(sort)
            return T(self.pick(vs), sort, op='var')
        raise ValueError(sort)

    def leaf(self, sort):
        vs = self.vars_of(sort)
        if vs and (sort[0] == 'Array' or self.integer(0, 2) > 0):
            return T(self.pick(vs), sort, op='var')
        return self.literal(sort)

    # ------------------------------------------------------------ sorts
    def scalar_sorts(self):
        out = [BOOL, INT, REAL] + [('BV', w) for w in self.p['widths']]
        if self.fp_sort:
            out += [self.fp_sort, RM]
        if self.p.get('strings'):
            out.append(STRING)
        if self.dt_name:
            out.append(('DT', self.dt_name))
        out += [('DT', n) for n in self.dt_extra]
        return out

    def any_sort(self):
        c = self.scalar_sorts()
        if self.arr_sort:
            c.append(self.arr_sort)
        return self.pick(c)

    # ------------------------------------------------------------ terms
    def term(self, sort, depth):
        if depth <= 0:
            return self.leaf(sort)
        prods = self.productions(sort)
        name = self.pick(prods)
        t = getattr(self, 'p_' + name)(sort, depth - 1)
        if t is None:
            return self.leaf(sort)
        self.s.features.add(name)
        return t

    def productions(self, sort):
        k = sort[0]
        common = ['leaf', 'ite', 'let']
        if self.p.get('uf') and any(r == sort for _, (a, r) in self.s.funs.items()):
            common.append('ufapp')
        if any(r == sort for _, (f, r, b) in self.s.defs.items()):
            common += ['defapp', 'defapp']
        if self.dt_name and any(s == sort for c, fs in self.s.dts[self.dt_name] for _, s in fs):
            common.append('selector')
        if self.arr_sort and self.arr_sort[2] == sort:
            common.append('select')
        if k == 'Bool':
            out = common + ['not', 'nary_bool', 'nary_bool', 'eq', 'eq', 'distinct', 'arith_rel', 'arith_rel', 'bv_rel',
                            'named', 'quant', 'is_int', 'divisible', 'implies']
            if self.fp_sort:
                out += ['fp_pred', 'fp_rel']
            if self.p.get('strings'):
                out += ['str_pred']
            return out
        if k == 'Int':
            out = common + ['int_nary', 'int_nary', 'int_bin', 'int_neg', 'int_abs', 'to_int']
            if self.p.get('strings'):
                out += ['str_to_int']
            return out
        if k == 'Real':
            out = common + ['real_nary', 'real_nary', 'real_div', 'to_real']
            if self.fp_sort:
                out.append('fp_to_real')
            return out
        if k == 'BV':
            out = common + ['bv_un', 'bv_bin', 'bv_bin', 'bv_nary', 'extract', 'rotate']
            w = sort[1]
            if w >= 2:
                out += ['concat', 'zero_extend', 'sign_extend', 'extend_const']
                if any(w % r == 0 for r in (2, 3, 4)):
                    out.append('repeat')
            if w == 1:
                out += ['bvcomp', 'bvcomp', 'ite_bvcomp']
            if self.fp_sort:
                out.append('fp_to_bv')
            return out
        if k == 'FP':
            return common + ['fp_un', 'fp_bin_rm', 'fp_bin', 'fp_sqrt', 'fp_fma', 'to_fp_real', 'to_fp_bv', 'to_fp_unsigned']
        if k == 'String':
            return common + ['str_concat', 'str_at', 'str_substr', 'str_replace', 'str_from_int']
        if k == 'Array':
            return ['leaf', 'store', 'ite']
        if k == 'DT':
            return common + ['ctor', 'ctor']
        if k == 'Seq':
            return ['leaf']
        return ['leaf']

    def p_leaf(self, sort, d):
        return self.leaf(sort)

    def p_ite(self, sort, d):
        return app('ite', [self.term(BOOL, d), self.term(sort, d), self.term(sort, d)], sort)

    def p_let(self, sort, d):
        n = self.integer(1, 2)
        binds = []
        for _ in range(n):
            bs = self.any_sort()
            if bs[0] == 'Array':
                bs = INT
            binds.append((self.fresh('l'), bs, self.term(bs, d)))
        saved = list(self.bound)
        if self.p.get('shadow') and self.bound and self.draw(st.booleans()):
            # shadowing profile: re-bind a name that is already in scope
            nm, s0 = self.pick(self.bound)
            binds[0] = (nm, s0, self.term(s0, d))
            self.s.features.add('shadowing-let')
        self.bound = saved + [(nm, s) for nm, s, _ in binds]
        body = self.term(sort, d)
        self.bound = saved
        plain = ['let', [[nm, t.plain] for nm, _, t in binds], body.plain]
        kids = [((1, i, 1), t) for i, (_, _, t) in enumerate(binds)] + [((2, ), body)]
        return T(plain, sort, kids, 'let')

    def p_ufapp(self, sort, d):
        name = self.pick([n for n, (a, r) in self.s.funs.items() if r == sort])
        args = [self.term(s, d) for s in self.s.funs[name][0]]
        return app(name, args, sort)

    def p_defapp(self, sort, d):
        name = self.pick([n for n, (f, r, b) in self.s.defs.items() if r == sort])
        formals = self.s.defs[name][0]
        if not formals:
            return T(name, sort, op='defconst')
        args = [self.term(s, d) for _, s in formals]
        if self.p.get('formals_like_globals') and len(formals) >= 2 and self.draw(st.booleans()):
            # an actual that mentions the name of *another* formal parameter,
            # while that parameter gets a different actual (simultaneous vs
            # sequential substitution differ exactly here)
            pairs = [(j, k) for j, (_, sj) in enumerate(formals) for k, (nk, sk) in enumerate(formals)
                     if j != k and sj == sk and nk in self.s.consts]
            if pairs:
                j, k = self.pick(pairs)
                sj = formals[j][1]
                v = T(formals[k][0], sj, op='var')
                wrap = {'Int': lambda x: app('+', [x, T('1', INT, op='const')], INT),
                        'Bool': lambda x: app('not', [x], BOOL),
                        'BV': lambda x: app('bvnot', [x], sj)}.get(sj[0])
                args[j] = wrap(v) if wrap and self.draw(st.booleans()) else v
                if self.draw(st.booleans()):
                    args[k] = self.literal(sj)
                self.s.features.add('actual-mentions-formal-name')
        return T([name] + [a.plain for a in args], sort, [((i + 1, ), a) for i, a in enumerate(args)], 'defapp')

    def p_selector(self, sort, d):
        cands = [(c, sel) for c, fs in self.s.dts[self.dt_name] for sel, s in fs if s == sort]
        c, sel = self.pick(cands)
        dt = ('DT', self.dt_name)
        if self.integer(0, 2) == 0:
            arg = self.term(dt, d)
        else:  # selector-of-constructor shape (RemoveDatatypeIdentity)
            arg = self.ctor_app(c, d)
        return app(sel, [arg], sort)

    def ctor_app(self, c, d):
        dn = [n for n, cs in self.s.dts.items() if any(c == c2 for c2, _ in cs)][0]
        fs = dict(self.s.dts[dn])[c]
        dt = ('DT', dn)
        if not fs:
            return T(c, dt, op='ctor0')
        return app(c, [self.term(s, d) for _, s in fs], dt)

    def p_ctor(self, sort, d):
        c = self.pick([c for c, _ in self.s.dts[sort[1]]])
        return self.ctor_app(c, d)

    def p_select(self, sort, d):
        return app('select', [self.term(self.arr_sort, d), self.term(self.arr_sort[1], d)], sort)

    def p_store(self, sort, d):
        return app('store', [self.term(sort, d), self.term(sort[1], d), self.term(sort[2], d)], sort)

    # Bool
    def p_not(self, sort, d):
        inner = self.pick(['any', 'not', 'and', 'or', 'rel', 'quant', 'eq'])
        if inner == 'not':
            return app('not', [app('not', [self.term(BOOL, d)], BOOL)], BOOL)
        if inner in ('and', 'or'):
            n = self.integer(2, 3)
            return app('not', [app(inner, [self.term(BOOL, d) for _ in range(n)], BOOL)], BOOL)
        if inner == 'rel':
            return app('not', [self.p_arith_rel(BOOL, d, binary=True)], BOOL)
        if inner == 'quant':
            return app('not', [self.p_quant(BOOL, d)], BOOL)
        if inner == 'eq':
            return app('not', [self.p_eq(BOOL, d)], BOOL)
        return app('not', [self.term(BOOL, d)], BOOL)

    def p_nary_bool(self, sort, d):
        op = self.pick(['and', 'or', 'xor', 'and', 'or'])
        n = self.integer(2, 3)
        args = [self.term(BOOL, d) for _ in range(n)]
        if op == 'xor' and self.draw(st.booleans()):
            args[self.integer(0, n - 1)] = T(self.pick(['true', 'false']), BOOL, op='const')
        return app(op, args, BOOL)

    def p_implies(self, sort, d):
        n = self.integer(2, 3)
        return app('=>', [self.term(BOOL, d) for _ in range(n)], BOOL)

    def p_eq(self, sort, d):
        s = self.any_sort()
        n = self.pick([2, 2, 2, 3])
        args = [self.term(s, d) for _ in range(n)]
        if s == BOOL and self.integer(0, 2) == 0:
            args[self.integer(0, n - 1)] = T('false', BOOL, op='const')
        if s[0] == 'BV' and s[1] == 1 and self.draw(st.booleans()):
            # (= #b1 (bvcomp a b)) shape
            w = self.pick(self.p['widths'])
            args = [self.bv_const(1), app('bvcomp', [self.term(('BV', w), d), self.term(('BV', w), d)], ('BV', 1))]
        return app('=', args, BOOL)

    def p_distinct(self, sort, d):
        s = self.any_sort()
        return app('distinct', [self.term(s, d), self.term(s, d)], BOOL)

    def p_arith_rel(self, sort, d, binary=False):
        s = self.pick([INT, INT, REAL])
        op = self.pick(['<', '<=', '>', '>='])
        n = 2 if binary else self.pick([2, 2, 3])
        return app(op, [self.term(s, d) for _ in range(n)], BOOL)

    def p_bv_rel(self, sort, d):
        w = self.pick(self.p['widths'])
        op = self.pick(['bvult', 'bvule', 'bvugt', 'bvuge', 'bvslt', 'bvsle', 'bvsgt', 'bvsge'])
        a, b = self.term(('BV', w), d), self.term(('BV', w), d)
        if self.integer(0, 3) == 0:
            # both operands zero-extended to a common width (BVZeroExtendPredicate)
            total = self.integer(2, 12)
            k1, k2 = self.integer(1, total - 1), self.integer(1, total - 1)
            a = self.ext_app('zero_extend', k1, self.term(('BV', total - k1), d))
            b = self.ext_app('zero_extend', k2, self.term(('BV', total - k2), d))
            if self.draw(st.booleans()):
                op = self.pick(['=', 'distinct'])
        return app(op, [a, b], BOOL)

    def p_named(self, sort, d):
        if self.bound:
            # SMT-LIB only allows :named on closed terms (not under a binder)
            return self.term(BOOL, d)
        t = self.term(BOOL, d)
        return T(['!', t.plain, ':named', self.fresh('n')], BOOL, [((1, ), t)], '!')

    def p_quant(self, sort, d):
        q = self.pick(['forall', 'exists'])
        n = self.integer(1, 2)
        vs = [(self.fresh('q'), self.pick([BOOL, ('BV', 1), ('BV', 2), ('BV', 3), INT])) for _ in range(n)]
        saved = list(self.bound)
        self.bound = saved + vs
        body = self.term(BOOL, d)
        self.bound = saved
        return T([q, [[nm, sort_plain(s)] for nm, s in vs], body.plain], BOOL, [((2, ), body)], q)

    def p_is_int(self, sort, d):
        return app('is_int', [self.term(REAL, d)], BOOL)

    def p_divisible(self, sort, d):
        k = self.integer(1, 5)
        t = self.term(INT, d)
        return T([['_', 'divisible', str(k)], t.plain], BOOL, [((1, ), t)], 'divisible')

    def p_fp_pred(self, sort, d):
        op = self.pick(['fp.isNormal', 'fp.isSubnormal', 'fp.isZero', 'fp.isInfinite', 'fp.isNaN',
                        'fp.isNegative', 'fp.isPositive'])
        return app(op, [self.term(self.fp_sort, d)], BOOL)

    def p_fp_rel(self, sort, d):
        op = self.pick(['fp.leq', 'fp.lt', 'fp.geq', 'fp.gt', 'fp.eq'])
        return app(op, [self.term(self.fp_sort, d), self.term(self.fp_sort, d)], BOOL)

    def p_str_pred(self, sort, d):
        op = self.pick(['str.<', 'str.<=', 'str.prefixof', 'str.suffixof', 'str.contains', 'str.contains', 'str.is_digit'])
        if op == 'str.is_digit':
            return app(op, [self.term(STRING, d)], BOOL)
        return app(op, [self.term(STRING, d), self.term(STRING, d)], BOOL)

    # Int / Real
    def p_int_nary(self, sort, d):
        op = self.pick(['+', '-', '*'])
        n = self.pick([2, 2, 3])
        return app(op, [self.term(INT, d) for _ in range(n)], INT)

    def p_int_bin(self, sort, d):
        return app(self.pick(['div', 'mod']), [self.term(INT, d), self.term(INT, d)], INT)

    def p_int_neg(self, sort, d):
        return app('-', [self.term(INT, d)], INT)

    def p_int_abs(self, sort, d):
        return app('abs', [self.term(INT, d)], INT)

    def p_to_int(self, sort, d):
        return app('to_int', [self.term(REAL, d)], INT)

    def p_str_to_int(self, sort, d):
        op = self.pick(['str.len', 'str.indexof', 'str.to_code', 'str.to_int'])
        if op == 'str.indexof':
            return app(op, [self.term(STRING, d), self.term(STRING, d), self.term(INT, d)], INT)
        return app(op, [self.term(STRING, d)], INT)

    def p_real_nary(self, sort, d):
        op = self.pick(['+', '-', '*'])
        n = self.pick([2, 2, 3])
        return app(op, [self.term(REAL, d) for _ in range(n)], REAL)

    def p_real_div(self, sort, d):
        return app('/', [self.term(REAL, d), self.term(REAL, d)], REAL)

    def p_to_real(self, sort, d):
        return app('to_real', [self.term(INT, d)], REAL)

    def p_fp_to_real(self, sort, d):
        return app('fp.to_real', [self.term(self.fp_sort, d)], REAL)

    # BV
    def p_bv_un(self, sort, d):
        op = self.pick(['bvnot', 'bvneg'])
        if self.integer(0, 2) == 0:
            return app(op, [app(op, [self.term(sort, d)], sort)], sort)
        return app(op, [self.term(sort, d)], sort)

    def p_bv_bin(self, sort, d):
        op = self.pick(['bvand', 'bvor', 'bvxor', 'bvnand', 'bvnor', 'bvxnor', 'bvadd', 'bvsub', 'bvmul', 'bvudiv',
                        'bvurem', 'bvsdiv', 'bvsrem', 'bvsmod', 'bvshl', 'bvlshr', 'bvashr'])
        a = self.term(sort, d)
        if op == 'bvnand' and self.draw(st.booleans()):
            return T([op, a.plain, a.plain], sort, [((1, ), a), ((2, ), a)], op)
        return app(op, [a, self.term(sort, d)], sort)

    def p_bv_nary(self, sort, d):
        op = self.pick(['bvand', 'bvor', 'bvadd', 'bvmul'])
        return app(op, [self.term(sort, d) for _ in range(3)], sort)

    def idx_app(self, name, idx, args, sort):
        head = ['_', name] + [str(i) for i in idx]
        return T([head] + [a.plain for a in args], sort, [((i + 1, ), a) for i, a in enumerate(args)], name)

    def ext_app(self, name, k, arg):
        return self.idx_app(name, [k], [arg], ('BV', arg.sort[1] + k))

    def p_extract(self, sort, d):
        w = sort[1]
        src = self.pick([x for x in range(w, min(w + 9, 65))])
        lo = self.integer(0, src - w)
        hi = lo + w - 1
        mode = self.integer(0, 3)
        if mode == 0:
            arg = self.bv_const(src)
        elif mode == 1 and src >= 2:
            k = self.integer(1, src - 1)
            arg = self.ext_app('zero_extend', k, self.term(('BV', src - k), d))
        else:
            arg = self.term(('BV', src), d)
        return self.idx_app('extract', [hi, lo], [arg], sort)

    def p_zero_extend(self, sort, d, name='zero_extend'):
        w = sort[1]
        k = self.integer(0, w - 1)  # index 0 is legal
        inner = ('BV', w - k)
        if w - k >= 2 and self.integer(0, 2) == 0:
            # nested extensions, same or mixed kind, inner index may be 0
            k2 = self.integer(0, w - k - 1)
            name2 = name if self.draw(st.booleans()) else self.pick(['zero_extend', 'sign_extend'])
            arg = self.ext_app(name2, k2, self.term(('BV', w - k - k2), d))
        else:
            arg = self.term(inner, d)
        return self.ext_app(name, k, arg)

    def p_sign_extend(self, sort, d):
        return self.p_zero_extend(sort, d, 'sign_extend')

    def p_extend_const(self, sort, d):
        w = sort[1]
        k = self.integer(1, w - 1)
        return self.ext_app(self.pick(['zero_extend', 'sign_extend']), k, self.bv_const(w - k))

    def p_concat(self, sort, d):
        w = sort[1]
        a = self.integer(1, w - 1)
        left = self.term(('BV', a), d)
        if self.integer(0, 2) == 0:
            left = T('#b' + '0' * a, ('BV', a), op='const') if self.draw(st.booleans()) else T(['_', 'bv0', str(a)], ('BV', a), op='const')
        return app('concat', [left, self.term(('BV', w - a), d)], sort)

    def p_repeat(self, sort, d):
        w = sort[1]
        r = self.pick([r for r in (2, 3, 4) if w % r == 0])
        return self.idx_app('repeat', [r], [self.term(('BV', w // r), d)], sort)

    def p_rotate(self, sort, d):
        return self.idx_app(self.pick(['rotate_left', 'rotate_right']), [self.integer(0, 5)], [self.term(sort, d)], sort)

    def p_bvcomp(self, sort, d):
        w = self.pick(self.p['widths'])
        return app('bvcomp', [self.term(('BV', w), d), self.term(('BV', w), d)], ('BV', 1))

    def p_ite_bvcomp(self, sort, d):
        w = self.pick(self.p['widths'])
        one = self.pick(['#b1', ['_', 'bv1', '1']])
        zero = self.pick(['#b0', ['_', 'bv0', '1']])
        eq = app('=', [self.term(('BV', w), d), self.term(('BV', w), d)], BOOL)
        return app('ite', [eq, T(one, ('BV', 1), op='const'), T(zero, ('BV', 1), op='const')], ('BV', 1))

    def p_fp_to_bv(self, sort, d):
        return self.idx_app(self.pick(['fp.to_ubv', 'fp.to_sbv']), [sort[1]], [self.term(RM, d), self.term(self.fp_sort, d)], sort)

    # FP
    def p_fp_un(self, sort, d):
        return app(self.pick(['fp.abs', 'fp.neg']), [self.term(sort, d)], sort)

    def p_fp_bin_rm(self, sort, d):
        return app(self.pick(['fp.add', 'fp.sub', 'fp.mul', 'fp.div']), [self.term(RM, d), self.term(sort, d), self.term(sort, d)], sort)

    def p_fp_bin(self, sort, d):
        return app(self.pick(['fp.min', 'fp.max', 'fp.rem']), [self.term(sort, d), self.term(sort, d)], sort)

    def p_fp_sqrt(self, sort, d):
        return app(self.pick(['fp.sqrt', 'fp.roundToIntegral']), [self.term(RM, d), self.term(sort, d)], sort)

    def p_fp_fma(self, sort, d):
        return app('fp.fma', [self.term(RM, d)] + [self.term(sort, d) for _ in range(3)], sort)

    def p_to_fp_real(self, sort, d):
        return self.idx_app('to_fp', [sort[1], sort[2]], [self.term(RM, d), self.term(REAL, d)], sort)

    def p_to_fp_bv(self, sort, d):
        w = sort[1] + sort[2]
        if w > 64:
            return None
        return self.idx_app('to_fp', [sort[1], sort[2]], [self.bv_const(w)], sort)

    def p_to_fp_unsigned(self, sort, d):
        w = self.pick(self.p['widths'])
        return self.idx_app('to_fp_unsigned', [sort[1], sort[2]], [self.term(RM, d), self.term(('BV', w), d)], sort)

    # String
    def p_str_concat(self, sort, d):
        return app('str.++', [self.term(STRING, d), self.term(STRING, d)], STRING)

    def p_str_at(self, sort, d):
        return app('str.at', [self.term(STRING, d), self.term(INT, d)], STRING)

    def p_str_substr(self, sort, d):
        return app('str.substr', [self.term(STRING, d), self.term(INT, d), self.term(INT, d)], STRING)

    def p_str_replace(self, sort, d):
        return app(self.pick(['str.replace', 'str.replace_all']), [self.term(STRING, d) for _ in range(3)], STRING)

    def p_str_from_int(self, sort, d):
        return app('str.from_int', [self.term(INT, d)], STRING)

    # ------------------------------------------------------------ script
    def build(self):
        p = self.p
        s = self.s
        if self.draw(st.booleans()):
            s.cmds.append(['set-logic', self.pick(['ALL', 'QF_BV', 'QF_AUFBVLIA', 'QF_UFLIRA', 'QF_FP', 'QF_S'])])
        if self.draw(st.booleans()):
            s.cmds.append(['set-info', ':status', self.pick(['sat', 'unsat', 'unknown'])])
        if p.get('fp') and self.draw(st.booleans()):
            self.fp_sort = self.pick([('FP', 5, 11), ('FP', 8, 24), ('FP', 3, 5), ('FP', 11, 53), ('FP', 4, 4)])
        if p.get('datatypes') and self.draw(st.booleans()):
            self.dt_name = self.fresh('D')
            ctors = [(self.fresh('c'), []) for _ in range(self.pick([1, 1, 2, 3]))]
            for _ in range(self.integer(0, 2)):
                fields = [(self.fresh('s'), self.pick([INT, BOOL, ('BV', self.pick(p['widths']))]))
                          for _ in range(self.integer(1, 2))]
                ctors.append((self.fresh('c'), fields))
            s.dts[self.dt_name] = ctors
            body = [[c] + [[sel, sort_plain(fs)] for sel, fs in f] for c, f in ctors]
            if self.draw(st.booleans()):
                s.cmds.append(['declare-datatype', self.dt_name, body])
            elif self.draw(st.booleans()):
                s.cmds.append(['declare-datatypes', [[self.dt_name, '0']], [body]])
            else:
                # several sorts in one declaration, each with its own nullary constructors
                names, bodies = [[self.dt_name, '0']], [body]
                for _ in range(self.integer(1, 2)):
                    dn = self.fresh('E')
                    cs = [(self.fresh('k'), []) for _ in range(self.pick([1, 2]))]
                    if self.draw(st.booleans()):
                        cs.append((self.fresh('k'), [(self.fresh('s'), self.pick([INT, BOOL]))]))
                    s.dts[dn] = cs
                    self.dt_extra.append(dn)
                    names.append([dn, '0'])
                    bodies.append([[c] + [[sel, sort_plain(fs)] for sel, fs in f] for c, f in cs])
                s.cmds.append(['declare-datatypes', names, bodies])
                s.features.add('multi-sort-declare-datatypes')
        # constants
        sorts = []
        for _ in range(self.integer(2, 5)):
            sorts.append(self.pick(self.scalar_sorts()))
        if p.get('arrays') and self.draw(st.booleans()):
            i = self.pick([INT, ('BV', self.pick(p['widths']))])
            e = self.pick([BOOL, INT, ('BV', self.pick(p['widths']))])
            if i != e or self.integer(0, 3) == 0:
                self.arr_sort = ('Array', i, e)
                sorts.append(self.arr_sort)
        if p.get('formals_like_globals'):
            sorts += [INT, INT, BOOL, BOOL]
        for so in sorts:
            name = self.name_for_const()
            s.consts[name] = so
            long_fp = self.draw(st.booleans())
            if self.draw(st.booleans()):
                s.cmds.append(['declare-const', name, sort_plain(so, long_fp)])
            else:
                s.cmds.append(['declare-fun', name, [], sort_plain(so, long_fp)])
        if p.get('uf'):
            for _ in range(self.integer(0, 2)):
                name = self.fresh('f')
                args = [self.pick([INT, BOOL, ('BV', self.pick(p['widths']))]) for _ in range(self.integer(1, 2))]
                ret = self.pick([INT, BOOL, ('BV', self.pick(p['widths']))])
                s.funs[name] = (args, ret)
                s.cmds.append(['declare-fun', name, [sort_plain(a) for a in args], sort_plain(ret)])
        for _ in range(self.integer(0, p.get('max_defs', 2))):
            name = self.fresh('g')
            nform = self.integer(0, 2)
            formals = []
            multi = {}
            for n_, so_ in s.consts.items():
                if so_[0] in ('Int', 'Bool', 'BV'):
                    multi.setdefault(so_, []).append(n_)
            multi = {k: v for k, v in multi.items() if len(v) >= 2}
            if p.get('formals_like_globals') and multi and self.draw(st.booleans()):
                # two formals named like two globals of one sort
                so_ = self.pick(sorted(multi))
                a_, b_ = multi[so_][0], multi[so_][1]
                formals = [(a_, so_), (b_, so_)]
                nform = 0
            for _ in range(nform):
                fs = self.pick([INT, BOOL, ('BV', self.pick(p['widths']))])
                if p.get('formals_like_globals') and self.draw(st.booleans()):
                    same = [n for n, so in s.consts.items() if so == fs and n not in [f for f, _ in formals]]
                    fn = self.pick(same) if same else self.fresh('a')
                else:
                    fn = self.fresh('a')
                formals.append((fn, fs))
            ret = self.pick([INT, BOOL, ('BV', self.pick(p['widths']))])
            saved_consts = dict(s.consts)
            self.bound = list(formals)
            if p.get('formals_like_globals'):
                for fn, _ in formals:  # the formal hides the global inside the body
                    s.consts.pop(fn, None)
            body = self.term(ret, self.integer(1, p['depth']))
            s.consts = saved_consts
            self.bound = []
            idx = len(s.cmds)
            s.cmds.append(['define-fun', name, [[n, sort_plain(so)] for n, so in formals], sort_plain(ret), body.plain])
            s.terms.append(((idx, 4), body))
            s.defs[name] = (formals, ret, body)
        for _ in range(self.integer(1, p.get('max_asserts', 3))):
            t = self.term(BOOL, self.integer(1, p['depth']))
            idx = len(s.cmds)
            s.cmds.append(['assert', t.plain])
            s.terms.append(((idx, 1), t))
        if self.integer(0, 6) == 0:
            bs = [n for n, so in s.consts.items() if so == BOOL]
            s.cmds.append(['check-sat-assuming', bs[:2]] if bs else ['check-sat'])
        else:
            s.cmds.append(['check-sat'])
        if self.draw(st.booleans()):
            s.cmds.append(['exit'])
        return s

    def name_for_const(self):
        if self.p.get('trap_names') and self.integer(0, 2) == 0:
            base = self.fresh('v')
            n = self.counter
            # quoted symbols whose content reads like a literal are symbols all the same,
            # and so is the empty quoted symbol
            cands = [base + '_prefix', '_' + base, f'x{self.integer(1, 999)}__fresh', f'|{base} q|', f'|{base}|',
                     base + '_suffix', '__' + base, f'|{n}|', f'|#b{n:b}|', f'|{n}.0|', f'|#x{n:x}|']
            if not getattr(self, 'used_empty_symbol', False):
                cands.append('||')
            name = self.pick(cands)
            if name == '||':
                self.used_empty_symbol = True
            return name
        return self.fresh(self.pick(['v', 'x', 'a', 'b']))


DEFAULT_PROFILE = dict(widths=[1, 2, 3, 4, 8, 16, 32], depth=3, fp=True, strings=True, arrays=True, datatypes=True,
                       uf=True, max_defs=2, max_asserts=3)
EVAL_PROFILE = dict(widths=[1, 2, 3, 4, 8], depth=3, fp=False, strings=False, arrays=False, datatypes=True,
                    uf=True, max_defs=2, max_asserts=3)


@st.composite
def script(draw, profile=None):
    g = Gen(draw, dict(DEFAULT_PROFILE, **(profile or {})))
    return g.build()


def terms_with_scope(s):
    """Every (absolute path, T, scope) in pre-order; scope maps the names bound
    at that position (let / quantifier / formal parameters) to their sorts."""
    out = []

    def walk(path, t, scope):
        out.append((path, t, scope))
        if t.op == 'let':
            inner = dict(scope)
            nb = len(t.plain[1])
            for i in range(nb):
                name = t.plain[1][i][0]
                inner[name] = t.kids[i][1].sort
            for rp, k in t.kids[:nb]:
                walk(path + rp, k, scope)
            for rp, k in t.kids[nb:]:
                walk(path + rp, k, inner)
        elif t.op in ('forall', 'exists'):
            inner = dict(scope)
            for name, sp in t.plain[1]:
                inner[name] = sort_from_plain(sp)
            for rp, k in t.kids:
                walk(path + rp, k, inner)
        else:
            for rp, k in t.kids:
                walk(path + rp, k, scope)

    for path, t in s.terms:
        cmd = s.cmds[path[0]]
        scope = {}
        if cmd[0] == 'define-fun':
            formals, _, _ = s.defs[cmd[1]]
            scope = {n: so for n, so in formals}
        walk(path, t, scope)
    return out


def head_of(t):
    if t.op:
        return t.op
    p = t.plain
    if isinstance(p, str):
        return 'leaf'
    return p[0] if isinstance(p[0], str) else 'indexed'
