"""Nested-list model of s-expression trees: ``str | list``.

Independent of ddsmt.nodes: equality is Python list/str equality, traversals and
substitution are the obvious recursive definitions (written iteratively where
depth may be large).
"""

DELETE = object()


def to_plain(node):
    """ddsmt Node (or list of Nodes) -> nested lists, iteratively."""
    if isinstance(node, (list, tuple)):
        return [to_plain(n) for n in node]
    if isinstance(node.data, str):
        return node.data
    root = []
    stack = [(node, root)]
    while stack:
        n, out = stack.pop()
        for c in n.data:
            if isinstance(c.data, str):
                out.append(c.data)
            else:
                sub = []
                out.append(sub)
                stack.append((c, sub))
    return root


def to_node(dd, plain):
    """nested lists -> fresh ddsmt Nodes (every position its own object)."""
    Node = dd.nodes.Node
    if isinstance(plain, str):
        return Node(plain)
    # iterative post-order
    stack = [(plain, False)]
    out = [[]]
    while stack:
        t, visited = stack.pop()
        if isinstance(t, str):
            out[-1].append(Node(t))
        elif visited:
            ch = out.pop()
            out[-1].append(Node(*ch) if ch else Node())
        else:
            stack.append((t, True))
            out.append([])
            for c in reversed(t):
                stack.append((c, False))
    return out[0][0]


def preorder(tree):
    """All subtrees in depth-first pre-order (the tree itself first)."""
    out = []
    stack = [tree]
    while stack:
        t = stack.pop()
        out.append(t)
        if not isinstance(t, str):
            stack.extend(reversed(t))
    return out


def preorder_list(trees):
    out = []
    for t in trees:
        out.extend(preorder(t))
    return out


def levelorder_list(trees):
    """Breadth-first over a list of trees (the list itself is not a node)."""
    out = []
    queue = list(trees)
    i = 0
    while i < len(queue):
        t = queue[i]
        i += 1
        out.append(t)
        if not isinstance(t, str):
            queue.extend(t)
    return out


def paths_preorder(tree, prefix=()):
    """(path, subtree) in pre-order; path = tuple of child indices."""
    out = []
    stack = [(prefix, tree)]
    while stack:
        p, t = stack.pop()
        out.append((p, t))
        if not isinstance(t, str):
            for i in reversed(range(len(t))):
                stack.append((p + (i, ), t[i]))
    return out


def get_path(trees, path):
    t = trees
    for i in path:
        t = t[i]
    return t


def count_nodes(tree_or_list, is_list):
    trees = tree_or_list if is_list else [tree_or_list]
    return len(preorder_list(trees))


def count_exprs(tree_or_list, is_list):
    trees = tree_or_list if is_list else [tree_or_list]
    return sum(1 for t in preorder_list(trees) if not isinstance(t, str))


def subst_paths(trees, repl):
    """Identity-keyed substitution on a *list of trees*.

    ``repl`` maps a path (tuple, first component = index into the list) to a
    replacement tree or DELETE.  Paths are pairwise non-nested.  The
    replacement is inserted as given.
    """

    def rec(t, path):
        if path in repl:
            r = repl[path]
            return [] if r is DELETE else [r]
        if isinstance(t, str):
            return [t]
        out = []
        for i, c in enumerate(t):
            out.extend(rec(c, path + (i, )))
        return [out]

    res = []
    for i, t in enumerate(trees):
        res.extend(rec(t, (i, )))
    return res


def subst_struct(trees, pairs):
    """Structural substitution: every subtree equal to a key (checked top-down,
    outermost match wins) is replaced by the value, inserted as given and not
    looked at again."""

    def rec(t):
        for k, v in pairs:
            if t == k:
                return [] if v is DELETE else [v]
        if isinstance(t, str):
            return [t]
        out = []
        for c in t:
            out.extend(rec(c))
        return [out]

    res = []
    for t in trees:
        res.extend(rec(t))
    return res


def ident(t):
    if isinstance(t, list) and t and isinstance(t[0], str):
        return t[0]
    return None


def introduce(trees, decls):
    """Insert declarations after the set-logic / set-info prefix."""
    pos = 0
    while pos < len(trees) and ident(trees[pos]) in ('set-info', 'set-logic'):
        pos += 1
    return trees[:pos] + decls + trees[pos:]


def render(tree):
    """Canonical one-line rendering of the model (for samples and digests)."""
    out = []
    stack = [tree]
    while stack:
        t = stack.pop()
        if t is None:
            out.append(')')
        elif isinstance(t, str):
            out.append(t)
        else:
            out.append('(')
            stack.append(None)
            stack.extend(reversed(t))
    s = []
    prev = None
    for tok in out:
        if prev is not None and prev != '(' and tok != ')':
            s.append(' ')
        s.append(tok)
        prev = tok
    return ''.join(s)


def render_list(trees):
    return '\n'.join(render(t) for t in trees)
