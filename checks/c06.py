"""C06 - the output file is a complete accepted input at every instant."""
import os
import shutil
import sys

from hypothesis import strategies as st

from vlib import e2e, env, gen_run, gen_sexpr, model, runner
from vlib import spec as vspec

PROPERTY = 'C06'
LEVEL = 'fault_enumeration'
RULE = ('(a) For Hypothesis-drawn (previous, next) lists of s-expressions and each '
        'output format (default, --pretty-print, --wrap-lines) the real '
        'write_smtlib_to_file(out, previous) then (out, next) runs under '
        'sys.settrace; run 1 counts the E line/call/return events in or below nodeio; '
        'then, exhaustively for every k <= E: reader/kill view - at event k the file '
        'is read from disk through a fresh descriptor (what another process or a '
        'post-kill inspection sees); interrupt view - KeyboardInterrupt is raised at '
        'event k, the with-blocks unwind, the file is read.  In both views the content '
        'must tokenise to previous or next (interrupt view: no stray file may remain '
        'next to it).  (b) launcher runs interrupted at a drawn traced event inside a '
        'rewrite and black-box runs that get a real SIGINT at a drawn time: the output '
        'holds the last content written before the interrupt (resp. an accepted '
        'candidate), the input hash is unchanged, the private TMPDIR is empty, stdout '
        'says interrupted.  Non-trivial: previous != next and E >= 3 / an interrupt '
        'that hit after >= 1 accepted step; distinct = distinct case.  A third kind of '
        'real run interrupts the main process while it handles the first result that '
        'arrives after the n-th acceptance: the accepted input must be in the file by then.')
ASSUMPTIONS = [
    'granularity: Python-level trace events and OS-level visibility of the file; a torn write inside one write(2) is below it',
    'exit status after an interrupt is C04\'s business and not asserted here',
]
EXHAUSTIVE = False  # per pair the crash points are enumerated exhaustively; pairs are sampled


def seq(text_or_none):
    if text_or_none is None:
        return None
    return vspec.seq_with_comments_of_text(text_or_none)


def read_file(path):
    try:
        with open(path, newline='') as f:
            return f.read()
    except FileNotFoundError:
        return None


def enumerate_points(dd, prev_plain, next_plain, fmt, workdir, acc, case):
    os.makedirs(workdir, exist_ok=True)
    out = os.path.join(workdir, 'c06-out.smt2')
    args = dd.options.args()
    old = (args.pretty_print, args.wrap_lines)
    args.pretty_print = fmt == 'pretty'
    args.wrap_lines = fmt == 'wrap'
    nodeio_file = dd.nodeio.__file__
    prev = [model.to_node(dd, t) for t in prev_plain]
    nxt = [model.to_node(dd, t) for t in next_plain]
    want_prev = vspec.seq_with_comments(prev_plain)
    want_next = vspec.seq_with_comments(next_plain)
    ok = (want_prev, want_next)
    stats = dict(events=0, reader_bad=0, interrupt_bad=0)
    try:
        def fresh():
            for fn in os.listdir(workdir):
                os.unlink(os.path.join(workdir, fn))
            dd.nodeio.write_smtlib_to_file(out, prev)

        # ---- run 1: count events, reader view at every event
        fresh()
        seen = []

        def tracer(frame, event, arg):
            if event in ('line', 'call', 'return'):
                seen.append(seq(read_file(out)))
            return tracer

        sys.settrace(tracer)
        try:
            dd.nodeio.write_smtlib_to_file(out, nxt)
        finally:
            sys.settrace(None)
        E = len(seen)
        stats['events'] = E
        bad = [k for k, s in enumerate(seen) if s not in ok]
        if bad:
            stats['reader_bad'] = len(bad)
            s = seen[bad[0]]
            what = 'missing' if s is None else ('empty' if not s else 'partial-or-mixed')
            acc.violation(f'reader/{fmt}',
                          f'at {len(bad)} of {E} points during the rewrite a reader sees a {what} file '
                          f'(first at event {bad[0]}); previous={model.render_list(prev_plain)[:150]!r} '
                          f'next={model.render_list(next_plain)[:150]!r}', case)
        if seq(read_file(out)) != want_next:
            acc.violation(f'final/{fmt}', 'file after the rewrite is not the new content', case)
        # ---- interrupt view: one run per k
        ibad = []
        stray = []
        for k in range(E):
            fresh()
            cnt = [0]

            def tracer2(frame, event, arg):
                if event in ('line', 'call', 'return'):
                    if cnt[0] == k:
                        cnt[0] += 1
                        sys.settrace(None)
                        raise KeyboardInterrupt()
                    cnt[0] += 1
                return tracer2

            sys.settrace(tracer2)
            try:
                dd.nodeio.write_smtlib_to_file(out, nxt)
            except KeyboardInterrupt:
                pass
            finally:
                sys.settrace(None)
            if seq(read_file(out)) not in ok:
                ibad.append(k)
            others = [f for f in os.listdir(workdir) if f != 'c06-out.smt2']
            if others:
                stray.append((k, others))
        if ibad:
            stats['interrupt_bad'] = len(ibad)
            acc.violation(f'interrupt/{fmt}',
                          f'after an interrupt at {len(ibad)} of {E} points the file is neither the previous '
                          f'nor the new content (first at event {ibad[0]})', case)
        if stray:
            acc.violation(f'interrupt-stray-file/{fmt}',
                          f'after an interrupt at {len(stray)} of {E} points a stray file remains: {stray[0]}', case)
    finally:
        args.pretty_print, args.wrap_lines = old
    return stats


@st.composite
def pair_case(draw):
    prev = draw(gen_sexpr.command_list(5, 10))
    mode = draw(st.sampled_from(['drop', 'other', 'edit']))
    if mode == 'drop' and len(prev) > 1:
        i = draw(st.integers(0, len(prev) - 1))
        nxt = prev[:i] + prev[i + 1:]
    elif mode == 'other':
        nxt = draw(gen_sexpr.command_list(4, 10))
    else:
        nxt = prev + [['assert', draw(gen_sexpr.tree(6))]]
    fmt = draw(st.sampled_from(['default', 'pretty', 'wrap']))
    return dict(kind='pair', prev=prev, next=nxt, fmt=fmt)


def sanitize(trees):
    """Keep the domain to what the parser can produce: no empty leaves, no
    leaves with white space / parens / quotes (they would not re-tokenise to
    themselves, which is C07's domain restriction, not C06's business)."""
    import re

    def ok(s):
        return bool(s) and re.fullmatch(r'[^\s()";|]+', s) is not None

    def rec(t):
        if isinstance(t, str):
            return t if ok(t) else 'sym'
        return [rec(c) for c in t]

    return [rec(t) for t in trees]


# ---------------------------------------------------------------- (b) e2e

@st.composite
def e2e_case(draw):
    c = draw(gen_run.run_case(jobs=(1, 2), formats=('default', 'pretty', 'wrap'), with_cc=False,
                              with_delay=True, comparisons=False, max_asserts=5,
                              kinds=['monotone', 'hash', 'mixed']))
    c['kind'] = draw(st.sampled_from(['launcher-interrupt', 'after-accept-interrupt', 'after-accept-interrupt', 'sigint']))
    if c['kind'] == 'after-accept-interrupt':
        c['opts']['strategy'] = draw(st.sampled_from(['hierarchical', 'hybrid', 'ddmin', 'ddmin']))
        c['opts']['jobs'] = draw(st.sampled_from([2, 3, 4] if c['opts']['strategy'] != 'ddmin' else [1, 1, 2]))
        c['nth'] = draw(st.integers(1, 6))
        if c['opts']['strategy'] == 'ddmin':
            # mostly substitutions: many accepted steps leave the number of expressions as it is
            c['nth'] = draw(st.integers(1, 10))
            if draw(st.booleans()):
                c['opts']['extra_argv'] = ['--disable-all', '--replace-by-variable',
                                           '--arith-constants', '--bv-simp-constants', '--simplify-symbol-names']
    c['point'] = draw(st.integers(1, 4000))
    c['after_tests'] = draw(st.integers(2, 120))
    return c


def run_e2e(case, acc, wd):
    classes = ['e2e-' + case['kind'], f'format-{case["fmt"]}']
    if case['kind'] == 'launcher-interrupt':
        # pass 1: count the traced events of all rewrites of an undisturbed run
        r0 = e2e.run_ddsmt(wd, case['text'], case['spec'], case['opts'], mode='launcher',
                           plan=dict(count_write_events=True, stop_on_repeat=True, max_accepts=60),
                           wall_limit=120, tmp_base=case.get('tmp_base'))
        if r0.timed_out or r0.after is None or not r0.after['write_events']:
            acc.skip('e2e: no rewrite happened / wall limit')
            return False, classes
        n = 1 + case['point'] % r0.after['write_events']
        r = e2e.run_ddsmt(wd, case['text'], case['spec'], case['opts'], mode='launcher',
                          plan=dict(interrupt_at=n, stop_on_repeat=True, max_accepts=60), wall_limit=120,
                          tmp_base=case.get('tmp_base'))
        if r.timed_out or r.after is None:
            acc.skip('e2e: wall limit')
            return False, classes
        if r.after.get('interrupted_in_write') is None:
            acc.skip('e2e: interrupt point not reached (schedule differs)')
            return False, classes
        k = r.after['interrupted_in_write']  # 1-based index of the interrupted write
        log = r.after['writes_log']
        allowed = {log[k - 1]}
        if k >= 2:
            allowed.add(log[k - 2])
        have = None if r.out_text is None else vspec.full_digest_of_text(r.out_text)
        if k == 1 and r.out_text is None:
            pass  # nothing had been accepted before: no file yet is fine
        elif have not in allowed:
            acc.violation('e2e-not-last',
                          f'interrupt inside write #{k}: output file is {"missing" if have is None else "neither the previous nor the new content"}; '
                          f'content={(r.out_text or "")[:200]!r}', case)
        if '[ddsmt] interrupted' not in r.stdout:
            acc.violation('e2e-no-interrupted-message', f'stdout={r.stdout[-200:]!r} stderr={r.stderr[-300:]!r}', case)
        nt = k >= 2
        classes.append('interrupt-after-accept' if nt else 'interrupt-in-first-write')
    elif case['kind'] == 'after-accept-interrupt':
        r = e2e.run_ddsmt(wd, case['text'], case['spec'], case['opts'], mode='launcher',
                          plan=dict(interrupt_after_accept=case['nth'], stop_on_repeat=True, max_accepts=60),
                          wall_limit=120, tmp_base=case.get('tmp_base'))
        if r.timed_out or r.after is None:
            acc.skip('e2e: wall limit')
            return False, classes
        k = r.after.get('interrupted_after_accept')
        if k is None:
            acc.skip('e2e: no further result after the n-th acceptance (nothing to interrupt)')
            return False, classes
        want = r.after['accepted_log'][k - 1]
        have = None if r.out_text is None else vspec.full_digest_of_text(r.out_text)
        if have != want:
            acc.violation('e2e-accepted-input-not-in-file',
                          f'interrupt while the first result after acceptance #{k} was processed: the output file '
                          f'{"is missing" if have is None else "still holds an older content"}', case)
        if '[ddsmt] interrupted' not in r.stdout:
            acc.violation('e2e-no-interrupted-message', f'stdout={r.stdout[-200:]!r} stderr={r.stderr[-300:]!r}', case)
        nt = True
        classes.append('interrupt-right-after-acceptance')
    else:
        r = e2e.run_ddsmt(wd, case['text'], case['spec'], case['opts'], mode='blackbox',
                          sigint_after_tests=case['after_tests'], wall_limit=60, tmp_base=case.get('tmp_base'))
        if not getattr(r, 'sigint_sent', False):
            acc.skip('e2e: run finished before the signal')
            return False, classes
        if r.timed_out:
            acc.violation('e2e-sigint-ignored', 'ddSMT still running 60 s after SIGINT; processes: '
                          f'{getattr(r, "survivors_at_timeout", None)}; stderr tail: {r.stderr[-400:]!r}', case)
            return False, classes
        nt = r.out_text is not None
        if r.out_text is not None:
            if not e2e.accepted_by_model(case['spec'], case['opts'], case['text'], r.out_text):
                acc.violation('e2e-output-not-accepted',
                              f'after SIGINT the output file is not an accepted input: {r.out_text[:300]!r}', case)
            th = vspec.token_hash(vspec.tokens_of_text(r.out_text))
            if not any(e['tokhash'] == th for e in r.log):
                acc.violation('e2e-output-not-a-candidate', 'output tokens were never handed to the command', case)
        acc.add_extra('sigint_runs', 1)
        if '[ddsmt] interrupted' not in r.stdout:
            if getattr(r, 'completed', False) and r.exit != 0 and 'Traceback (most recent call last)' not in r.stderr:
                # minimisation was over and its statistics printed when the signal arrived: the
                # interpreter was killed by it while shutting down (status -2), there was
                # nothing left to interrupt
                acc.skip('e2e: signal arrived after minimisation had finished')
            elif r.exit == 0 and 'Traceback (most recent call last)' not in r.stderr:
                # The run went on and completed normally: CPython discards a KeyboardInterrupt
                # that is raised inside a finalizer / weak-reference callback ("Exception
                # ignored in ..."), which a process full of multiprocessing objects runs often.
                # The property speaks about what holds AFTER ddSMT is interrupted; a run that
                # was not interrupted in effect is judged by the checks above and below only.
                # Seen about once in 1000 runs; a tree that ignores interrupts as a rule is
                # reported by finish().
                acc.add_extra('sigint_without_effect', 1)
                if len(acc.extra.get('sigint_without_effect_cases', [])) < 3:
                    acc.add_extra('sigint_without_effect_cases', [dict(case, stderr_has_ignored='Exception ignored' in r.stderr)])
            else:
                acc.violation('e2e-no-interrupted-message', f'status {r.exit}; stdout={r.stdout[-200:]!r} stderr={r.stderr[-300:]!r}', case)
    if not r.input_unchanged:
        acc.violation('input-modified', 'input file changed', case)
    if r.tmp_left:
        acc.violation('tmpdir-left', f'TMPDIR not empty after exit: {r.tmp_left[:3]}', case)
    if r.extra_files:
        acc.violation('stray-files', f'{r.extra_files}', case)
    return nt, classes


def other_filesystem_dir(ctx):
    """A scratch directory on a file system other than the work directory's
    (tmpfs /dev/shm), or None."""
    base = '/dev/shm'
    try:
        os.makedirs(ctx.workdir, exist_ok=True)
        if os.path.isdir(base) and os.stat(base).st_dev != os.stat(ctx.workdir).st_dev:
            d = os.path.join(base, f'verif-c06-{os.getpid()}')
            os.makedirs(d, exist_ok=True)
            return d
    except OSError:
        pass
    return None


def shard(ctx, acc):
    dd = env.load()
    # ddSMT's temporary directory lives on another file system than the output
    # file (as /tmp often does): a writer that stages the new content there and
    # moves it over the output is not atomic
    import tempfile
    shm = other_filesystem_dir(ctx)
    if shm:
        tempfile.tempdir = shm
        acc.count('tmpdir-on-other-filesystem')
    env.set_options(dd, ['in.smt2', 'out.smt2', '/bin/true'])
    dd.tmpfiles.init()
    try:
        _shard(ctx, acc, dd, shm)
    finally:
        tempfile.tempdir = None
        if shm:
            shutil.rmtree(shm, ignore_errors=True)


def _shard(ctx, acc, dd, shm):
    total = 240 if ctx.quick else 6000
    points = [0]

    def body(case):
        case = dict(case, prev=sanitize(case['prev']), next=sanitize(case['next']))
        st_ = enumerate_points(dd, case['prev'], case['next'], case['fmt'], ctx.workdir, acc, case)
        points[0] += 2 * st_['events']
        acc.case(case, nontrivial=(case['prev'] != case['next'] and st_['events'] >= 3),
                 classes=['pair', f'format-{case["fmt"]}'],
                 sample=dict(previous=model.render_list(case['prev'])[:200],
                             next=model.render_list(case['next'])[:200], fmt=case['fmt'],
                             crash_points=st_['events']))

    runner.hyp_run(ctx, pair_case(), body, ctx.share(total))
    acc.add_extra('crash_points_enumerated', points[0])

    n = [0]
    total2 = 48 if ctx.quick else 1000

    def body2(case):
        n[0] += 1
        wd = os.path.join(ctx.workdir, f'e2e{n[0]}')
        case = dict(case, tmp_base=(shm if shm and n[0] % 2 else None))
        nt, classes = run_e2e(case, acc, wd)
        shutil.rmtree(wd, ignore_errors=True)
        acc.case(dict(case), nontrivial=nt, classes=classes,
                 sample=dict(kind=case['kind'], opts=case['opts'], input=case['text'][:200]))

    runner.hyp_run(ctx, e2e_case(), body2, ctx.share(total2), salt=7)


def replay(case, acc, ctx):
    if case.get('kind') == 'pair':
        dd = env.load()
        import tempfile
        shm = other_filesystem_dir(ctx)
        if shm:
            tempfile.tempdir = shm
        env.set_options(dd, ['in.smt2', 'out.smt2', '/bin/true'])
        dd.tmpfiles.init()
        enumerate_points(dd, sanitize(case['prev']), sanitize(case['next']), case['fmt'], ctx.workdir, acc, case)
    else:
        run_e2e(case, acc, os.path.join(ctx.workdir, 'replay'))


def finish(acc, tier):
    n, lost = acc.extra.get('sigint_runs', 0), acc.extra.get('sigint_without_effect', 0)
    if lost > max(2, n // 10):
        cases = acc.extra.get('sigint_without_effect_cases') or [{}]
        acc.violation('e2e-interrupts-without-effect',
                      f'{lost} of {n} runs that were sent SIGINT during minimisation went on and completed normally', cases[0])
