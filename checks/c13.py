"""C13 - the working input is a tree: node identities are pairwise distinct.

(a) ``nodes.reduplicate`` on generated DAGs; (b) traced real runs: ids of the
list handed to every TaskGenerator / Producer are pairwise distinct.
"""
import collections

from hypothesis import strategies as st

from vlib import env, gen_sexpr, model, runner

PROPERTY = 'C13'
LEVEL = 'exploration'
RULE = ('(a) Hypothesis-drawn lists of trees over a small alphabet, built as DAGs '
        'by reusing Node objects (leaves, subtrees, empty lists, top-level items) '
        'at several positions according to drawn decisions; after reduplicate: ids '
        'pairwise distinct over all positions, token sequence unchanged, every node '
        'whose whole subtree had no repeated id is the same object.  Also DAGs '
        'produced the way ddSMT produces them: apply_simp with one replacement '
        'object inserted at several positions.  (b) real ddSMT runs (launcher, '
        'profiles favouring variable elimination / let substitution / constant '
        'propagation / inlining, accepting command specs) traced at every '
        'TaskGenerator / Producer construction.  Non-trivial: DAG with a node at '
        '>= 2 positions / run in which an accepted step inserted one object twice.')
ASSUMPTIONS = [
    'identity preservation is demanded only for nodes whose whole subtree contains no repeated id (Node is immutable, ancestors of a re-duplicated occurrence must be rebuilt)',
]


def positions(dd, ns):
    """All (node) occurrences in pre-order, with repetition (by position)."""
    out = []
    stack = list(reversed(ns))
    while stack:
        n = stack.pop()
        out.append(n)
        if not n.is_leaf():
            stack.extend(reversed(n.data))
    return out


def check_redup(dd, ns, acc, case, kinds=()):
    before_plain = model.to_plain(ns)
    before_pos = positions(dd, ns)
    counts = collections.Counter(n.id for n in before_pos)
    try:
        out = dd.nodes.reduplicate(ns)
    except Exception as e:  # noqa
        acc.violation(f'raises/{type(e).__name__}', f'{e!r} {case!r}', case)
        return
    after_pos = positions(dd, out)
    ids = [n.id for n in after_pos]
    if model.to_plain(out) != before_plain:
        acc.violation('tokens-changed', f'{before_plain!r} -> {model.to_plain(out)!r}', case)
        return
    if len(ids) != len(set(ids)):
        dup = [i for i, c in collections.Counter(ids).items() if c > 1]
        which = sorted({('leaf' if n.is_leaf() else ('empty-list' if len(n) == 0 else 'subtree'))
                        for n in after_pos if n.id in dup})
        acc.violation('dup-id/' + '+'.join(which),
                      f'ids repeated after reduplicate: {before_plain!r} shared={sorted(kinds)}', case)
    # identity of already-unique nodes
    uniq_subtree = {}

    def all_unique(n):
        if id(n) in uniq_subtree:
            return uniq_subtree[id(n)]
        ok = counts[n.id] == 1 and (n.is_leaf() or all(all_unique(c) for c in n.data))
        uniq_subtree[id(n)] = ok
        return ok

    if len(before_pos) == len(after_pos):
        for b, a in zip(before_pos, after_pos):
            if all_unique(b) and a is not b:
                acc.violation('identity-lost',
                              f'node {model.to_plain(b)!r} was unique but got rebuilt: {before_plain!r}', case)
                break


@st.composite
def simp_dag(draw):
    """A DAG made the way ddSMT makes them: one replacement object inserted at
    several identity-keyed positions (EliminateVariable / constant
    propagation)."""
    trees = draw(st.lists(gen_sexpr.tree(12, gen_sexpr.small_leaf, 4), min_size=1, max_size=4))
    repl = draw(st.one_of(gen_sexpr.tree(6, gen_sexpr.small_leaf, 3), st.just([])))
    target = draw(gen_sexpr.small_leaf)
    return dict(kind='simp', trees=trees, repl=repl, target=target)


def run_case(dd, case, acc):
    if case['kind'] == 'dag':
        ns, kinds = gen_sexpr.build_dag(dd, case['trees'], case['dec'])
        check_redup(dd, ns, acc, case, kinds)
        return bool(kinds), ['dag'] + ['shared-' + k for k in sorted(kinds)]
    # simp: replace every leaf equal to target by the *same* object
    base = [model.to_node(dd, t) for t in case['trees']]
    r = model.to_node(dd, case['repl'])
    substs = {n.id: r for n in dd.nodes.dfs(base) if n.is_leaf() and n.data == case['target']}
    n_occ = len(substs)
    res = dd.mutator_utils.apply_simp(base, dd.mutator_utils.Simplification(substs, []))
    check_redup(dd, res, acc, case, ['replacement-object'])
    cls = ['simp', f'occurrences-{min(n_occ, 3)}']
    if isinstance(case['repl'], list) and not case['repl']:
        cls.append('replacement-empty-list')
    return n_occ >= 2, cls


def shard(ctx, acc):
    dd = env.load()
    total = 10000 if ctx.quick else 250000
    strat = st.one_of(
        gen_sexpr.dag_plan().map(lambda p: dict(kind='dag', trees=p[0], dec=p[1])),
        simp_dag())

    def body(case):
        nt, classes = run_case(dd, case, acc)
        acc.case(case, nontrivial=nt, classes=classes)

    runner.hyp_run(ctx, strat, body, ctx.share(total))
    try:
        from checks import c13_runs
    except ImportError:
        return
    c13_runs.shard(ctx, acc)


def replay(case, acc, ctx):
    dd = env.load()
    if case.get('kind') in ('dag', 'simp'):
        run_case(dd, case, acc)
    else:
        from checks import c13_runs
        c13_runs.replay(case, acc, ctx)
