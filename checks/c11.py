"""C11 - applying a simplification changes exactly the designated subtrees
(model-based; stateful machine for pending simplifications)."""
import copy
import os

import hypothesis
from hypothesis import strategies as st
from hypothesis import stateful

from vlib import env, gen_sexpr, guard, model, runner

PROPERTY = 'C11'
LEVEL = 'exploration'
RULE = ('Hypothesis-drawn lists of trees (script-like, with a set-logic/set-info '
        'prefix) or single trees + a simplification of one of the two kinds real '
        'mutators build: identity keys on pairwise non-nested positions '
        '(replacement or deletion, incl. last child, top-level items, the root) or '
        'structural keys (leaf or subtree, 1-3 at once, replacements that contain '
        'their own key or another key) + optional fresh declarations; identity keys on '
        'inputs that still share nodes (exactly one carrying position changes).  Oracle: '
        'recursive nested-list model; base deep-equal to its snapshot (structure '
        'and ids); untouched subtrees are the same objects; declarations right '
        'after the prefix iff something changed.  A RuleBasedStateMachine keeps a '
        'set of pending simplifications for the current input and applies them in '
        'any order (real == model after every step).  Pending identity-keyed simplifications '
        'are also applied one after the other by freshly forked worker processes, each to '
        'the result the previous worker sent back (as in a -j n run); traced real parallel ddmin/hybrid runs: every '
        'adopted result derives from the then-current input (C05\'s chain oracle, keys run/...).  Every call runs under a 2 s '
        'CPU-time limit.  Non-trivial: replacement contains a key, or >= 2 keys, or '
        'deletion of a last child / top-level item / the root.')
ASSUMPTIONS = [
    'identity-keyed and structural keys are never mixed in one simplification (no mutator does)',
    'hang = more than 1 s CPU time for an input of < 200 nodes',
]

CPU = 1.0

repl_tree = gen_sexpr.tree(8, gen_sexpr.small_leaf, 4)
wide = st.lists(gen_sexpr.small_leaf, min_size=6, max_size=9).map(lambda xs: ['and'] + xs)
decl = st.builds(lambda n, s: ['declare-const', n, s],
                 st.sampled_from(['v1', 'v2', 'x__fresh']),
                 st.sampled_from(['Int', 'Bool', ['_', 'BitVec', '4']]))


def all_paths(trees):
    return [(i, ) + p for i, t in enumerate(trees)
            for p, _ in model.paths_preorder(t)]


def prune_nested(paths):
    out = []
    for p in paths:
        if not any(p[:len(q)] == q or q[:len(p)] == p for q in out):
            out.append(p)
    return out


@st.composite
def id_case(draw, trees_strategy=None):
    single = draw(st.booleans())
    if single:
        trees = [draw(gen_sexpr.tree(20, gen_sexpr.leaf_text, 5))]
    else:
        trees = draw(trees_strategy or gen_sexpr.command_list(5, 12))
        if not trees:
            trees = [['assert', 'x']]
        if draw(st.integers(0, 3)) == 0:
            trees = trees + [['assert', draw(wide)], draw(wide)]
    paths = all_paths(trees)
    chosen = prune_nested(
        draw(st.lists(st.sampled_from(paths), min_size=1, max_size=5, unique=True)))
    repl = []
    for p in chosen:
        r = draw(st.one_of(st.none(), repl_tree, repl_tree))
        repl.append([list(p), r])
    fresh = [] if single else draw(st.lists(decl, max_size=2))
    return dict(kind='ids', single=single, trees=trees, repl=repl, fresh=fresh)


@st.composite
def struct_case(draw):
    single = draw(st.booleans())
    if single:
        trees = [draw(gen_sexpr.tree(20, gen_sexpr.small_leaf, 5))]
    else:
        trees = draw(st.lists(gen_sexpr.tree(14, gen_sexpr.small_leaf, 4),
                              min_size=1, max_size=5))
        if draw(st.booleans()):
            trees = [['set-logic', 'QF_BV']] + trees
    subs = [t for _, t in [(p, model.get_path(trees, p)) for p in all_paths(trees)]]
    nkeys = draw(st.integers(1, 3))
    keys = []
    for _ in range(nkeys):
        k = draw(st.one_of(st.sampled_from(subs), st.sampled_from(subs),
                           gen_sexpr.small_leaf))
        if k not in keys:
            keys.append(k)
    pairs = []
    for k in keys:
        mode = draw(st.sampled_from(['plain', 'contains-own-key', 'contains-other-key',
                                     'delete', 'plain']))
        if mode == 'plain':
            v = draw(repl_tree)
        elif mode == 'contains-own-key':
            v = ['+', k, '1']
        elif mode == 'contains-other-key':
            v = ['g', keys[(keys.index(k) + 1) % len(keys)], k]
        else:
            v = None
        if v == k:
            v = ['w', k]
        pairs.append([k, v, mode])
    fresh = [] if single else draw(st.lists(decl, max_size=2))
    return dict(kind='struct', single=single, trees=trees, pairs=pairs, fresh=fresh)


@st.composite
def dag_case(draw):
    """Identity keys on an input that still shares nodes (the state ddmin is
    in between two successes of one pass): exactly ONE of the positions carrying
    the id is replaced."""
    plains, dec = draw(gen_sexpr.dag_plan(4, 10))
    nkeys = draw(st.integers(1, 2))
    picks = draw(st.lists(st.integers(0, 10**6), min_size=nkeys, max_size=nkeys))
    repls = [draw(st.one_of(st.none(), repl_tree)) for _ in range(nkeys)]
    return dict(kind='ids-dag', single=False, trees=plains, dec=dec, picks=picks, repls=repls)


def run_dag_case(dd, case, acc):
    nodes = dd.nodes
    base, kinds = gen_sexpr.build_dag(dd, case['trees'], case['dec'])
    trees = case['trees']
    # positions by id
    pos = {}
    for p in all_paths(trees):
        pos.setdefault(model.get_path(base, p).id, []).append(p)
    shared = sorted(i for i, ps in pos.items() if len(ps) >= 2)
    ids = sorted(pos)
    chosen = []
    for k in case['picks']:
        pool = shared if shared and k % 3 else ids
        i = pool[k % len(pool)]
        # keys must designate pairwise non-nested nodes (all their positions)
        if all(not (p[:len(q)] == q or q[:len(p)] == p) for c in chosen for p in pos[i] for q in pos[c]) and i not in chosen:
            chosen.append(i)
    if not chosen:
        return False, ['ids-dag', 'no-key']
    substs = {}
    options = [dict()]
    for i, r in zip(chosen, case['repls']):
        substs[i] = None if r is None else model.to_node(dd, r)
        options = [{**o, p: (model.DELETE if r is None else r)} for o in options for p in pos[i]]
    expected = [model.subst_paths(trees, o) for o in options]
    snap = snapshot(dd, base)
    try:
        with guard.cpu_limit(CPU):
            got = model.to_plain(dd.mutator_utils.apply_simp(base, dd.mutator_utils.Simplification(dict(substs), [])))
    except guard.CpuTimeout:
        acc.violation('hang/substitute', f'{case!r}', case)
        return True, ['ids-dag']
    if got not in expected:
        acc.violation('result-differs/ids-on-shared-node',
                      f'an identity key carried by {[len(pos[i]) for i in chosen]} positions must change exactly one of '
                      f'them: case={case!r} got={got!r} expected one of {expected[:3]!r}', case)
    if snapshot(dd, base) != snap:
        acc.violation('base-mutated', f'{case!r}', case)
    sh = any(len(pos[i]) >= 2 for i in chosen)
    return sh, ['ids-dag'] + (['key-on-shared-node'] if sh else [])


def snapshot(dd, ns):
    return [(n.id, model.to_plain(n)) for n in dd.nodes.dfs(ns)]


def untouched_ids(dd, base_nodes, designated_ids):
    """ids of base nodes that are neither on a spine above a designated node
    nor inside a designated subtree."""
    keep = set()

    def rec(n):
        """returns True if subtree contains a designated node"""
        if n.id in designated_ids:
            return True
        hit = False
        if not n.is_leaf():
            for c in n.data:
                if rec(c):
                    hit = True
        if not hit:
            keep.add(n.id)
        return hit

    for n in base_nodes:
        rec(n)
    # nodes strictly inside an untouched subtree are untouched as well
    return keep


def designated_struct(dd, base_nodes, keys_plain):
    out = set()

    def rec(n):
        if model.to_plain(n) in keys_plain:
            out.add(n.id)
            return
        if not n.is_leaf():
            for c in n.data:
                rec(c)

    for n in base_nodes:
        rec(n)
    return out


def run_case(dd, case, acc):
    if case['kind'] == 'ids-dag':
        return run_dag_case(dd, case, acc)
    nodes = dd.nodes
    Simp = dd.mutator_utils.Simplification
    trees = case['trees']
    base = [model.to_node(dd, t) for t in trees]
    snap = snapshot(dd, base)
    fresh_plain = case.get('fresh', [])
    fresh_nodes = [model.to_node(dd, d) for d in fresh_plain]
    nt = False
    classes = [case['kind'], 'single' if case['single'] else 'list']
    if case['kind'] == 'ids':
        mrepl = {}
        substs = {}
        designated = set()
        for p, r in case['repl']:
            p = tuple(p)
            node = model.get_path(base, p)
            designated.add(node.id)
            mrepl[p] = model.DELETE if r is None else r
            substs[node.id] = None if r is None else model.to_node(dd, r)
            if r is None:
                parent_len = len(model.get_path(trees, p[:-1])) if len(p) > 1 else len(trees)
                if p[-1] == parent_len - 1:
                    classes.append('delete-last-child')
                    nt = True
                if len(p) == 1:
                    classes.append('delete-top-level')
                    nt = True
        if len(case['repl']) >= 2:
            nt = True
            classes.append('keys>=2')
        expected = model.subst_paths(trees, mrepl)
        changed = True
    else:
        pairs = [(k, model.DELETE if v is None else v) for k, v, _ in case['pairs']]
        substs = {}
        for k, v, mode in case['pairs']:
            substs[model.to_node(dd, k)] = None if v is None else model.to_node(dd, v)
            classes.append('struct-' + mode)
            if mode.startswith('contains'):
                nt = True
        if len(pairs) >= 2:
            nt = True
            classes.append('keys>=2')
        expected = model.subst_struct(trees, pairs)
        designated = designated_struct(dd, base, [k for k, _ in pairs])
        changed = bool(designated)
        if not changed:
            classes.append('no-occurrence')
    # ---- run the real code under the CPU guard
    if acc.violations.get('hang/substitute', {}).get('count', 0) >= 3 and case['kind'] == 'struct' and any(
            v is not None and any(k2 in model.preorder(v) for k2, _, _ in case['pairs'])
            for _, v, _ in case['pairs']):
        # bucket saturated: do not burn 1 s CPU per case on a confirmed hang
        acc.skip('hang-bucket-saturated')
        return False, classes
    try:
        with guard.cpu_limit(CPU):
            if case['single']:
                res = nodes.substitute(base[0], substs)
                got_nodes = [] if res is None else [res]
            else:
                got_nodes = dd.mutator_utils.apply_simp(
                    base, Simp(substs, list(fresh_nodes)))
    except guard.CpuTimeout:
        acc.violation('hang/substitute', f'no result within {CPU}s CPU: {case!r}', case)
        return nt, classes
    except MemoryError:
        acc.violation('hang/substitute', f'memory exhausted: {case!r}', case)
        return nt, classes
    except Exception as e:  # noqa
        acc.violation(f'raises/{type(e).__name__}', f'{e!r} on {case!r}', case)
        return nt, classes
    if not case['single'] and changed and fresh_plain:
        expected = model.introduce(expected, fresh_plain)
        classes.append('fresh-decls')
    got = model.to_plain(got_nodes)
    if got != expected:
        # name the sub-cause
        if not case['single'] and fresh_plain and model.to_plain(
                [n for n in got_nodes if not any(n is f for f in fresh_nodes)]) == [
                    e for e in expected] and False:
            pass
        sub = case['kind']
        if case['kind'] == 'struct' and any(m.startswith('contains') for _, _, m in case['pairs']):
            sub = 'struct-replacement-rewritten'
        elif fresh_plain and not case['single']:
            without = [t for t in got if t not in fresh_plain]
            exp_without = [t for t in expected if t not in fresh_plain]
            if without == exp_without:
                sub = 'decl-position'
        acc.violation(f'result-differs/{sub}',
                      f'case={case!r}\nexpected={expected!r}\ngot={got!r}', case)
    # base not modified
    if snapshot(dd, base) != snap:
        acc.violation('base-mutated', f'{case!r}', case)
    # untouched subtrees keep their identity
    if got == expected:
        keep = untouched_ids(dd, base, designated)
        res_ids = {n.id for n in nodes.dfs(got_nodes)}
        missing = keep - res_ids
        if missing:
            acc.violation('identity-lost',
                          f'{len(missing)} untouched nodes were rebuilt: {case!r}', case)
    return nt, classes


# ------------------------------------------------------------ stateful machine

def make_machine(dd, acc):
    nodes = dd.nodes
    Simp = dd.mutator_utils.Simplification

    class Pending(stateful.RuleBasedStateMachine):

        def __init__(self):
            super().__init__()
            self.plain = None
            self.real = None
            self.pending = []  # (mrepl, substs-by-id factory)
            self.steps = []
            self.applied = 0
            self.adopted = 0

        @stateful.initialize(trees=gen_sexpr.command_list(5, 10))
        def init(self, trees):
            if not trees:
                trees = [['assert', ['=', 'x', 'x']]]
            self.plain = trees
            self.real = [model.to_node(dd, t) for t in trees]
            self.snap = snapshot(dd, self.real)
            self.steps.append(['init', trees])

        @stateful.rule(data=st.data())
        def compute(self, data):
            """compute k identity-keyed simplifications for the current input"""
            paths = all_paths(self.plain)
            if not paths:
                return
            k = data.draw(st.integers(1, 3))
            for _ in range(k):
                chosen = prune_nested(data.draw(
                    st.lists(st.sampled_from(paths), min_size=1, max_size=3, unique=True)))
                repl = [[list(p), data.draw(st.one_of(st.none(), repl_tree))] for p in chosen]
                ids = [model.get_path(self.real, tuple(p)).id for p, _ in repl]
                self.pending.append((repl, ids))
                self.steps.append(['compute', repl])

        def _apply(self, i):
            repl, ids = self.pending[i]
            mrepl = {tuple(p): (model.DELETE if r is None else r) for p, r in repl}
            substs = {i_: (None if r is None else model.to_node(dd, r))
                      for i_, (_, r) in zip(ids, repl)}
            expected = model.subst_paths(self.plain, mrepl)
            with guard.cpu_limit(CPU):
                got = dd.mutator_utils.apply_simp(self.real, Simp(substs, []))
            return expected, got

        @stateful.precondition(lambda self: self.pending)
        @stateful.rule(data=st.data())
        def apply_pending(self, data):
            i = data.draw(st.integers(0, len(self.pending) - 1))
            self.steps.append(['apply', i])
            try:
                expected, got = self._apply(i)
            except guard.CpuTimeout:
                acc.violation('machine/hang', repr(self.steps), dict(kind='machine', steps=self.steps))
                return
            self.applied += 1
            if model.to_plain(got) != expected:
                acc.violation('machine/pending-result-differs',
                              f'steps={self.steps!r} expected={expected!r} got={model.to_plain(got)!r}',
                              dict(kind='machine', steps=self.steps))

        @stateful.precondition(lambda self: self.pending)
        @stateful.rule(data=st.data(), redup=st.booleans())
        def adopt(self, data, redup):
            i = data.draw(st.integers(0, len(self.pending) - 1))
            self.steps.append(['adopt', i, redup])
            try:
                expected, got = self._apply(i)
            except guard.CpuTimeout:
                return
            if model.to_plain(got) != expected:
                return
            if redup:
                got = nodes.reduplicate(got)
                if model.to_plain(got) != expected:
                    acc.violation('machine/reduplicate-changed-tokens', repr(self.steps),
                                  dict(kind='machine', steps=self.steps))
                    return
            self.real, self.plain = got, expected
            self.snap = snapshot(dd, self.real)
            self.pending = []
            self.adopted += 1

        @stateful.rule(data=st.data())
        def apply_struct(self, data):
            subs = [model.get_path(self.plain, p) for p in all_paths(self.plain)]
            if not subs:
                return
            k = data.draw(st.sampled_from(subs))
            v = data.draw(st.one_of(repl_tree, st.just(['+', k, '1'])))
            if v == k:
                return
            if acc.violations.get('machine/hang', {}).get('count', 0) >= 3 and k in model.preorder(v):
                acc.skip('hang-bucket-saturated')
                return
            self.steps.append(['struct', k, v])
            expected = model.subst_struct(self.plain, [(k, v)])
            try:
                with guard.cpu_limit(CPU):
                    got = dd.mutator_utils.apply_simp(
                        self.real, Simp({model.to_node(dd, k): model.to_node(dd, v)}, []))
            except guard.CpuTimeout:
                acc.violation('machine/hang', repr(self.steps), dict(kind='machine', steps=self.steps))
                return
            if model.to_plain(got) != expected:
                acc.violation('machine/struct-result-differs',
                              f'steps={self.steps!r} expected={expected!r} got={model.to_plain(got)!r}',
                              dict(kind='machine', steps=self.steps))

        @stateful.invariant()
        def base_intact(self):
            if self.real is None:
                return
            if model.to_plain(self.real) != self.plain or snapshot(dd, self.real) != self.snap:
                acc.violation('machine/base-mutated', repr(self.steps),
                              dict(kind='machine', steps=self.steps))

        def teardown(self):
            if self.real is not None:
                nt = self.applied >= 2 and self.adopted >= 1
                acc.case(dict(steps=self.steps), nontrivial=nt,
                         classes=['machine', f'machine-adopted-{min(self.adopted, 3)}'],
                         sample=dict(kind='machine', steps=self.steps[:12]))

    return Pending


def _worker_apply(args):
    """runs in a freshly forked worker: apply one identity-keyed simplification"""
    exprs, substs, fresh = args
    dd = env.load()
    try:
        return dd.mutator_utils.apply_simp(exprs, dd.mutator_utils.Simplification(substs, fresh))
    except Exception as e:  # noqa
        return f'raises {type(e).__name__}: {e}'


def run_workers_case(dd, case, acc):
    """Pending simplifications across worker processes, as in a -j n run: all are computed
    for one input in the parent; worker A (forked from the parent) applies the first one and
    sends its result back; worker B (forked from the same parent, later) applies the next
    one to A's result, and so on.  Oracle: the nested-list model applied to all paths."""
    import multiprocessing
    mp = multiprocessing.get_context('fork')
    trees = case['trees']
    base = [model.to_node(dd, t) for t in trees]
    steps = []
    mrepl = {}
    for p, r in case['repl']:
        p = tuple(p)
        node = model.get_path(base, p)
        steps.append({node.id: None if r is None else model.to_node(dd, r)})
        mrepl[p] = model.DELETE if r is None else r
    expected = model.subst_paths(trees, mrepl)
    cur = base
    if acc.violations.get('workers/no-answer', {}).get('count', 0) >= 2:
        acc.skip('workers: no-answer bucket saturated')
        return False, ['ids-workers']
    for i, substs in enumerate(steps):
        with mp.Pool(1) as pool:
            res = pool.apply_async(_worker_apply, ((cur, substs, []), ))
            try:
                cur = res.get(timeout=20)
            except multiprocessing.TimeoutError:
                # (a worker that cannot even unpickle its task dies and never answers)
                acc.violation('workers/no-answer', f'worker {i} did not answer within 20 s: the task (input + simplification) '
                              f'did not survive the way to the worker, or the application hangs', case)
                return False, ['ids-workers']
        if isinstance(cur, str):
            acc.violation('workers/' + cur.split(':')[0].replace(' ', '-'), f'worker {i}: {cur}', case)
            return False, ['ids-workers']
    got = model.to_plain(cur)
    if got != expected:
        acc.violation('workers/result-differs',
                      f'{len(steps)} pending simplifications applied one after the other by freshly forked workers: '
                      f'got {model.render_list(got)[:200]!r}, model {model.render_list(expected)[:200]!r}', case)
    ids = [n.id for n in dd.nodes.dfs(cur)]
    if len(ids) != len(set(ids)):
        acc.violation('workers/duplicate-identity', 'the result holds one identity at several positions', case)
    return len(steps) >= 2, ['ids-workers', f'workers-{min(len(steps), 3)}']


def shard(ctx, acc):
    dd = env.load()
    guard.limit_memory(3)
    total = 16000 if ctx.quick else 400000

    def wbody(case):
        case = dict(case, kind='ids-workers')
        nt, classes = run_workers_case(dd, case, acc)
        acc.case(case, nontrivial=nt, classes=classes)

    # real parallel ddmin runs: every result that is adopted must be the CURRENT input with
    # the designated subtrees removed/replaced - not an older input a worker still holds
    # (C05's chain oracle on traced runs, reported here under run/...)
    from checks import c05
    racc = runner.BorrowedAcc(acc, 'run/', dict(kind='ddmin-run'))
    rn = [0]

    def rbody(case):
        rn[0] += 1
        wd = os.path.join(ctx.workdir, f'run{rn[0] % 3}')
        nt, classes, r = c05.run_case(case, racc, wd)
        racc.case(case, nontrivial=nt, classes=classes + ['ddmin-run'])

    runner.hyp_run(ctx, c05.cases().filter(lambda c: c['opts']['strategy'] != 'hierarchical'), rbody,
                   ctx.share(48 if ctx.quick else 1200), salt=29)

    wstrat = id_case().filter(lambda c: len(c['repl']) >= 2)
    runner.hyp_run(ctx, wstrat, wbody, ctx.share(1600 if ctx.quick else 40000), salt=23)

    def body(case):
        nt, classes = run_case(dd, case, acc)
        acc.case(case, nontrivial=nt, classes=classes)

    strat = st.one_of(id_case(), struct_case(), dag_case())
    runner.hyp_run(ctx, strat, body, ctx.share(total))

    # stateful part
    from hypothesis import HealthCheck, settings
    machine = make_machine(dd, acc)
    n_machines = ctx.share(800 if ctx.quick else 20000)
    stateful.run_state_machine_as_test(
        hypothesis.seed(ctx.hseed(5))(machine),
        settings=settings(max_examples=n_machines, stateful_step_count=20,
                          database=None, deadline=None, report_multiple_bugs=False,
                          phases=[hypothesis.Phase.generate],
                          suppress_health_check=list(HealthCheck)))


def replay(case, acc, ctx):
    dd = env.load()
    guard.limit_memory(3)
    if case.get('kind') == 'machine':
        replay_machine(dd, case['steps'], acc)
    elif case.get('kind') == 'ddmin-run':
        from checks import c05
        c05.run_case(case, runner.BorrowedAcc(acc, 'run/', dict(kind='ddmin-run')), os.path.join(ctx.workdir, 'replay'))
    elif case.get('kind') == 'ids-workers':
        run_workers_case(dd, case, acc)
    else:
        run_case(dd, case, acc)


def replay_machine(dd, steps, acc):
    """Re-execute a recorded machine history without Hypothesis."""
    Simp = dd.mutator_utils.Simplification
    plain = real = None
    pending = []
    for st_ in steps:
        op = st_[0]
        if op == 'init':
            plain = st_[1]
            real = [model.to_node(dd, t) for t in plain]
        elif op == 'compute':
            repl = st_[1]
            pending.append((repl, [model.get_path(real, tuple(p)).id for p, _ in repl]))
        elif op in ('apply', 'adopt'):
            repl, ids = pending[st_[1]]
            mrepl = {tuple(p): (model.DELETE if r is None else r) for p, r in repl}
            substs = {i_: (None if r is None else model.to_node(dd, r))
                      for i_, (_, r) in zip(ids, repl)}
            expected = model.subst_paths(plain, mrepl)
            try:
                with guard.cpu_limit(CPU):
                    got = dd.mutator_utils.apply_simp(real, Simp(substs, []))
            except guard.CpuTimeout:
                acc.violation('machine/hang', repr(steps), dict(kind='machine', steps=steps))
                return
            if model.to_plain(got) != expected:
                acc.violation('machine/pending-result-differs', repr(steps),
                              dict(kind='machine', steps=steps))
                return
            if op == 'adopt':
                if st_[2]:
                    got = dd.nodes.reduplicate(got)
                real, plain, pending = got, expected, []
        elif op == 'struct':
            k, v = st_[1], st_[2]
            expected = model.subst_struct(plain, [(k, v)])
            try:
                with guard.cpu_limit(CPU):
                    got = dd.mutator_utils.apply_simp(
                        real, Simp({model.to_node(dd, k): model.to_node(dd, v)}, []))
            except guard.CpuTimeout:
                acc.violation('machine/hang', repr(steps), dict(kind='machine', steps=steps))
                return
            if model.to_plain(got) != expected:
                acc.violation('machine/struct-result-differs', repr(steps),
                              dict(kind='machine', steps=steps))
