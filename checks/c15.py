"""C15 - every proposed simplification is applicable and lexically closed."""
import os
import pickle

from hypothesis import strategies as st

from vlib import env, gen_typed, guard, model, refreader, runner

PROPERTY = 'C15'
LEVEL = 'exploration'
RULE = ('Hypothesis-drawn well-sorted scripts over all theories of the typed '
        'generator with the content-dependent traps the property names (string '
        'literals with "" and backslashes, str.contains with a compound first '
        'argument, symbols already named <x>_prefix, _<x>, x<n>__fresh, quoted '
        'symbols, n-ary applications with >= 8 children, set-logic, check-sat-assuming, '
        'annotations, datatypes) and their partially reduced forms (0-3 drawn '
        'proposals applied first).  For every BFS node x every registered mutator x '
        'every proposal: identity keys are ids of nodes of this input, structural '
        'keys occur in it; apply_simp and the checking / output writers do not raise; '
        'every leaf of the result is exactly one lexeme for the reference reader; '
        'parse(render(result)) equals the result for ddSMT\'s parser and for the '
        'reference reader; every introduced declaration declares a symbol that was '
        'not declared before, only once, and precedes its first use; no symbol is declared or defined more often than in the input.  The mutator instances live as long as the shard (as in a ddSMT run): they are asked about the original input before the accepted steps and about every earlier case.  Non-trivial: a '
        'proposal of a mutator other than EraseNode on a script with a trap; distinct '
        '= (script, mutator, node index).')
ASSUMPTIONS = [
    'relative to the generated language and its reduced forms',
    'an exception inside filter/mutations/global_mutations itself is tolerated (C04); only what is proposed is judged',
]

CPU = 10.0


def declared_symbols(plain_list):
    out = set()
    for c in plain_list:
        # only well-formed declarations count (a reduced form may hold a torso
        # such as (declare-const x), which declares nothing)
        arity = {'declare-const': 3, 'declare-fun': 4, 'define-fun': 5, 'declare-sort': 3, 'define-sort': 4,
                 'declare-datatype': 3}
        if isinstance(c, list) and len(c) >= 2 and isinstance(c[0], str) and isinstance(c[1], str) \
                and arity.get(c[0]) == len(c):
            out.add(c[1])
    return out


def declaration_counts(plain_list):
    """name -> number of well-formed top-level commands that declare or define it as a function symbol"""
    arity = {'declare-const': 3, 'declare-fun': 4, 'define-fun': 5, 'define-fun-rec': 5, 'define-const': 4}
    out = {}
    for c in plain_list:
        if isinstance(c, list) and len(c) >= 2 and isinstance(c[0], str) and isinstance(c[1], str) \
                and arity.get(c[0]) == len(c):
            out[c[1]] = out.get(c[1], 0) + 1
    return out


def make_instances(dd):
    """ddSMT creates its mutators once per run and asks the same instances about every
    intermediate input; the check keeps one set of instances per shard as well."""
    return [(name, cls()) for name, (mod, cls, _, _) in sorted(env.all_mutator_classes(dd).items())]


def warm(dd, muts, exprs):
    """Ask every instance about every node of an (earlier) input; results are discarded."""
    dd.smtlib.collect_information(exprs)
    for node in dd.nodes.bfs(exprs):
        for _, m in muts:
            try:
                with guard.cpu_limit(CPU):
                    if hasattr(m, 'filter') and not m.filter(node):
                        continue
                    if hasattr(m, 'mutations'):
                        list(m.mutations(node))
                    if hasattr(m, 'global_mutations'):
                        list(m.global_mutations(node, exprs))
            except (Exception, guard.CpuTimeout):  # noqa
                pass


def check_proposals(dd, exprs, acc, case, counts, traps, muts=None):
    """Enumerate every proposal on ``exprs`` and judge it."""
    plain = model.to_plain(exprs)
    ids = {n.id for n in dd.nodes.dfs(exprs)}
    declared = declared_symbols(plain)
    decl_counts = declaration_counts(plain)
    base_leaves = {t for t in model.preorder_list(plain) if isinstance(t, str)}
    if muts is None:
        muts = make_instances(dd)
    try:
        wire_exprs = pickle.loads(pickle.dumps(exprs))
        if model.to_plain(wire_exprs) != plain:
            acc.violation('other/input-differs-after-pickling', model.render_list(model.to_plain(wire_exprs))[:300], {k: v for k, v in case.items() if not k.startswith('_')})
            wire_exprs = None
    except Exception as e:  # noqa
        acc.violation('other/input-not-picklable', f'{type(e).__name__}: {e}', {k: v for k, v in case.items() if not k.startswith('_')})
        wire_exprs = None
    tmp = os.path.join(case['_workdir'], 'c15-check.smt2')
    nt = False
    pub = {k: v for k, v in case.items() if not k.startswith('_')}
    for idx, node in enumerate(dd.nodes.bfs(exprs)):
        for mname, m in muts:
            props = []
            try:
                with guard.cpu_limit(CPU):
                    if hasattr(m, 'filter') and not m.filter(node):
                        continue
                    if hasattr(m, 'mutations'):
                        for x in m.mutations(node):
                            props.append(('local', x))
                    if hasattr(m, 'global_mutations'):
                        for x in m.global_mutations(node, exprs):
                            props.append(('global', x))
            except guard.CpuTimeout:
                acc.violation(f'{mname}/hang', f'{mname} on node {model.render(model.to_plain(node))[:200]}',
                              dict(pub, focus=[mname, idx]))
                continue
            except Exception:  # noqa  tolerated, what was yielded so far still counts
                acc.count(f'raises-in-mutator/{mname}')
            for k, (kind, simp) in enumerate(props):
                counts[mname] = counts.get(mname, 0) + 1
                focus = dict(pub, focus=[mname, idx, k])
                node_s = model.render(model.to_plain(node))[:160]

                def V(what, detail):
                    acc.violation(f'{mname}/{what}', f'{mname} ({kind}) on {node_s}: {detail}', focus)

                if not isinstance(simp, dd.mutator_utils.Simplification):
                    V('not-a-simplification', repr(simp)[:200])
                    continue
                # keys
                bad = False
                for key in simp.substs:
                    if isinstance(key, int):
                        if key not in ids:
                            V('foreign-key', f'id {key} is not a node of this input')
                            bad = True
                    elif isinstance(key, dd.nodes.Node):
                        kp = model.to_plain(key)
                        if not any(kp == model.to_plain(n) for n in dd.nodes.dfs(exprs)):
                            V('foreign-key', f'structural key {model.render(kp)} does not occur')
                            bad = True
                    else:
                        V('foreign-key', f'key of type {type(key).__name__}')
                        bad = True
                if bad:
                    continue
                # applicable
                try:
                    with guard.cpu_limit(CPU):
                        res = dd.mutator_utils.apply_simp(
                            exprs, dd.mutator_utils.Simplification(dict(simp.substs), list(simp.fresh_vars)))
                except guard.CpuTimeout:
                    V('apply-hangs', '')
                    continue
                except Exception as e:  # noqa
                    V('apply-raises', f'{type(e).__name__}: {e}')
                    continue
                if res is None or not isinstance(res, list) or not all(isinstance(x, dd.nodes.Node) for x in res):
                    V('apply-result-not-a-list-of-nodes', repr(res)[:200])
                    continue
                rplain = model.to_plain(res)
                # ... and applicable where a run applies it: in a worker, to the unpickled input,
                # after the simplification itself went through pickle
                if wire_exprs is not None:
                    try:
                        with guard.cpu_limit(CPU):
                            s2 = pickle.loads(pickle.dumps(dd.mutator_utils.Simplification(dict(simp.substs), list(simp.fresh_vars))))
                            res2 = dd.mutator_utils.apply_simp(wire_exprs, s2)
                        if model.to_plain(res2) != rplain:
                            V('differs-after-pickling', f'applied to the pickled input: {model.render_list(model.to_plain(res2))[:200]!r}')
                            continue
                    except guard.CpuTimeout:
                        pass
                    except Exception as e:  # noqa
                        V('apply-raises-after-pickling', f'{type(e).__name__}: {e}')
                        continue
                # renderable
                try:
                    dd.nodeio.write_smtlib_for_checking(tmp, res)
                    with open(tmp, newline='') as f:
                        compact = f.read()
                    full = dd.nodeio.write_smtlib_to_str(res)
                except Exception as e:  # noqa
                    V('render-raises', f'{type(e).__name__}: {e}')
                    continue
                # leaves are single tokens
                badleaf = [t for t in model.preorder_list(rplain) if isinstance(t, str) and t not in base_leaves
                           and not t.startswith(';') and not refreader.is_one_lexeme(t)]
                if badleaf:
                    V('leaf-not-a-token', f'leaf {badleaf[0]!r}')
                    continue
                # re-parse equals the in-memory tree
                ok = True
                for text, which in ((compact, 'checking'), (full, 'output')):
                    try:
                        back = model.to_plain(list(dd.nodeio.parse_smtlib(text)))
                        ref = refreader.read(text)
                    except Exception as e:  # noqa
                        V('reparse-raises', f'{which}: {type(e).__name__}: {e}')
                        ok = False
                        break
                    if back != rplain or ref != rplain:
                        V('reparse-differs', f'{which} rendering re-reads differently: {text[:200]!r}')
                        ok = False
                        break
                if not ok:
                    continue
                # declarations: no symbol is declared / defined more often than before (a
                # declaration may also be "introduced" by renaming an existing one)
                rc = declaration_counts(rplain)
                dup = sorted(n for n, k in rc.items() if k > max(1, decl_counts.get(n, 0)))
                if dup:
                    V('duplicate-declaration', f'the result declares {dup[:3]} more than once (the input did not)')
                seen = set()
                for dcl in simp.fresh_vars:
                    dp = model.to_plain(dcl)
                    if not (isinstance(dp, list) and len(dp) >= 3 and dp[0] in ('declare-const', 'declare-fun')
                            and isinstance(dp[1], str)):
                        V('bad-declaration', model.render(dp)[:200])
                        continue
                    name = dp[1]
                    rest = list(rplain)
                    if dp in rest:
                        rest.remove(dp)  # the introduced one only - an identical older declaration stays
                    still_declared = declared_symbols(rest)
                    if name in seen or name in still_declared:
                        V('redeclared', f'introduces {model.render(dp)} but {name} is already declared')
                    seen.add(name)
                    pos = [i for i, c in enumerate(rplain) if c == dp]
                    first_use = [i for i, c in enumerate(rplain) if c != dp and name in model.preorder(c)]
                    if pos and first_use and min(first_use) < pos[0]:
                        V('used-before-declared', f'{name} used in command {min(first_use)}, declared at {pos[0]}')
                if mname != 'EraseNode' and traps:
                    nt = True
    return nt


def random_steps(dd, exprs, picks):
    from checks.c04 import random_steps as rs
    return rs(dd, exprs, picks)


def add_traps(draw, s):
    """Extra commands with the shapes some mutators need."""
    cmds = list(s.cmds)
    traps = set()
    ints = [n for n, so in s.consts.items() if so == gen_typed.INT]
    bools = [n for n, so in s.consts.items() if so == gen_typed.BOOL]
    strs = [n for n, so in s.consts.items() if so == gen_typed.STRING]
    pos = max(i for i, c in enumerate(cmds) if c[0] != 'exit' and not c[0].startswith('check-sat')) + 1
    extra = []
    if draw(st.booleans()):
        args = (bools + ['true', 'false'] * 4)[:draw(st.integers(8, 10))]
        if draw(st.integers(0, 3)) == 0:
            # the partially reduced form ReplaceByChild makes of (assert (and ...))
            extra.append(['and'] + args)
            traps.add('wide-application-at-top-level')
        else:
            extra.append(['assert', ['and'] + args])
            traps.add('wide-application')
    if strs and draw(st.booleans()):
        a = strs[0]
        extra.append(['assert', ['str.contains', ['str.++', a, '"x ""y"" \\\\z"'], draw(st.sampled_from(['"b"', a]))]])
        traps.add('str.contains-compound')
    if draw(st.booleans()):
        extra.append(['assert', ['=', '"a""b\\\\u{41}c d"', '"say ""hi"" twice ""again"""']])
        traps.add('string-with-escapes')
    if ints and draw(st.booleans()):
        extra.append(['assert', ['!', ['>', ints[0], '12345'], ':named', 'ann1']])
        traps.add('annotation')
    if draw(st.booleans()):
        extra.append(['define-funs-rec', [['r1', [['n', 'Int']], 'Int'], ['r2', [['n', 'Int']], 'Int']],
                      [['r2', 'n'], ['+', '1', ['r1', 'n']]]])
        traps.add('define-funs-rec')
    if draw(st.booleans()):
        # quoted symbols that must stay quoted: every printable character that a
        # simple symbol may not contain (and one that it may, as control)
        specials = ' #\'(),:;[]`{}"'
        for ch in draw(st.lists(st.sampled_from(specials + '.-+<=!'), min_size=1, max_size=3, unique=True)):
            a, b = draw(st.sampled_from(['x', 'main', 'a1'])), draw(st.sampled_from(['y', '1', 'b']))
            name = '|' + a + ch + b + '|'
            if not any(c[0] == 'declare-const' and c[1] == name for c in extra):
                extra.append(['declare-const', name, 'Int'])
                extra.append(['assert', ['>', name, '0']])
        traps.add('quoted-symbol-with-special-char')
    if draw(st.booleans()):
        extra.append(['declare-const', '|quoted sym|', 'Int'])
        extra.append(['declare-const', '|plainquoted|', 'Int'])
        extra.append(['assert', ['<', '|quoted sym|', '|plainquoted|']])
        traps.add('quoted-symbols')
    if draw(st.booleans()) and bools:
        cmds = [c for c in cmds if not c[0].startswith('check-sat')]
        extra.append(['check-sat-assuming', bools[:2]])
        traps.add('check-sat-assuming')
    bvs = [n for n, so in s.consts.items() if so[0] == 'BV' and so[1] >= 2 and not n.startswith('|')]
    if bvs and draw(st.booleans()):
        if draw(st.booleans()):
            extra.append(['declare-const', '_' + bvs[0], ['_', 'BitVec', '1']])
        else:
            extra.append(['define-fun', '_' + bvs[0], [], ['_', 'BitVec', '1'], '#b1'])
        traps.add('underscore-name-taken')
    plain_strs = [n for n in strs if not n.startswith('|')]
    if plain_strs and draw(st.booleans()):
        extra.append(['assert', ['str.contains', plain_strs[-1], draw(st.sampled_from(['"q"', '"a b"']))]])
        traps.add('str.contains-variable')
    elif plain_strs and draw(st.booleans()):
        tn = plain_strs[0] + draw(st.sampled_from(['_prefix', '_suffix']))
        if draw(st.booleans()):
            extra.append(['declare-const', tn, 'String'])
        else:
            extra.append(['define-fun', tn, [], 'String', '"dq"'])
        extra.append(['assert', ['str.contains', plain_strs[0], '"q"']])
        traps.add('prefix-name-taken')
    if draw(st.booleans()):
        # shapes the random terms rarely hit, so that every registered mutator proposes something
        extra.append(['declare-const', 'bq1', ['_', 'BitVec', '1']])
        extra.append(['declare-const', 'bq2', ['_', 'BitVec', '1']])
        extra.append(['assert', ['=', '#b1', ['bvor', 'bq1', ['bvand', 'bq2', 'bq1']]]])
        extra.append(['assert', ['=', ['bvnand', 'bq1', 'bq1'], 'bq2']])
        extra.append(['assert', ['=', ['seq.nth', ['seq.unit', 'bq1'], '0'], 'bq2']])
        extra.append(['declare-const', '__rw', ['_', 'BitVec', '2']])
        extra.append(['define-fun', '_rw', [], ['_', 'BitVec', '4'], [['_', 'zero_extend', '2'], '__rw']])
        extra.append(['define-fun', 'rw', [], ['_', 'BitVec', '8'], [['_', 'zero_extend', '4'], '_rw']])
        extra.append(['assert', ['=', 'rw', '#x03']])
        extra.append(['declare-datatype', 'TD', [['tnil'], ['tc', ['ts1', 'Int'], ['ts2', 'Bool']]]])
        extra.append(['assert', ['=', ['ts1', ['tc', '5', 'true']], '5']])
        extra.append(['assert', ['ts2', ['tc', ['+', '1', '2'], 'false']]])
        traps.add('rare-mutator-shapes')
    if draw(st.booleans()):
        # characters outside ASCII are legal in string literals and quoted symbols
        extra.append(['declare-const', '|ü é|', 'Int'])
        extra.append(['assert', ['>', '|ü é|', '0']])
        extra.append(['assert', ['=', '"é∀ x"', ['str.++', '"é∀"', '" x"']]])
        traps.add('non-ascii')
    if draw(st.booleans()):
        # incremental benchmarks repeat (set-info :status ...) before each check-sat
        extra.append(['set-info', ':status', 'sat'])
        if draw(st.booleans()):
            extra.append(['set-logic', 'ALL'])
        traps.add('late-set-info')
    cmds[pos:pos] = extra
    for n in s.consts:
        if n.endswith('_prefix') or n.endswith('_suffix') or n.startswith('_') or n.endswith('__fresh') or n.startswith('|'):
            traps.add('trap-name')
    return cmds, traps


@st.composite
def cases(draw):
    s = draw(gen_typed.script(dict(trap_names=True, depth=2, max_asserts=2)))
    cmds, traps = add_traps(draw, s)
    picks = draw(st.lists(st.integers(0, 10**6), min_size=0, max_size=3))
    fresh_trap = draw(st.integers(0, 3)) == 0
    if fresh_trap:
        traps.add('fresh-name-taken')
    return dict(cmds=cmds, picks=picks, traps=sorted(traps), fresh_trap=fresh_trap)


def run_case(dd, case, acc, workdir, counts, muts=None):
    case = dict(case, _workdir=workdir)
    os.makedirs(workdir, exist_ok=True)
    if muts is None:
        # replay: fresh instances that have seen the recorded earlier inputs
        muts = make_instances(dd)
        for h in case.get('history', []):
            try:
                with guard.cpu_limit(60.0):
                    warm(dd, muts, [model.to_node(dd, c) for c in h])
            except guard.CpuTimeout:
                pass
    exprs = [model.to_node(dd, c) for c in case['cmds']]
    try:
        with guard.cpu_limit(60.0):
            if case['picks']:
                # the instances are asked about the original input, then (below) about the
                # input a few accepted steps later: state kept in an instance must not leak
                warm(dd, muts, exprs)
                exprs = random_steps(dd, exprs, case['picks'])
                # only well-formed lists can be judged
                if not all(isinstance(x, dd.nodes.Node) for x in exprs):
                    acc.skip('reduced form is not a list of nodes (reported on the step that produced it)')
                    return False
                if any(isinstance(t, str) and not t.startswith(';') and not refreader.is_one_lexeme(t)
                       for t in model.preorder_list(model.to_plain(exprs))):
                    acc.skip('reduced form has a non-token leaf (reported on the step that produced it)')
                    return False
            dd.smtlib.collect_information(exprs)
            if case.get('fresh_trap'):
                # a symbol that already carries the name a fresh variable for
                # some node of this input would get (x<node id>__fresh)
                ifv = dd.mutators_smtlib.IntroduceFreshVariable()
                for n in dd.nodes.bfs(exprs):
                    try:
                        ok = ifv.filter(n)
                    except Exception:  # noqa
                        ok = False
                    if ok:
                        decl = dd.nodes.Node('declare-const', f'x{n.id}__fresh', 'Bool')
                        exprs = dd.smtlib.introduce_variables(exprs, [decl])
                        dd.smtlib.collect_information(exprs)
                        break
            return check_proposals(dd, exprs, acc, case, counts, case['traps'], muts)
    except guard.CpuTimeout:
        acc.skip('cpu-limit')
        return False


def shard(ctx, acc):
    dd = env.load()
    env.set_options(dd, ['in.smt2', 'out.smt2', '/bin/true'])
    total = 320 if ctx.quick else 5000
    counts = {}

    muts = make_instances(dd)
    hist = []

    def body(case):
        case = dict(case, history=list(hist))
        if not hist:
            hist.append(case['cmds'])
        else:
            hist[1:] = [case['cmds']]
        nt = run_case(dd, case, acc, ctx.workdir, counts, muts)
        text = model.render_list(case['cmds'])
        acc.case(dict(script=text, picks=case['picks']), nontrivial=nt,
                 classes=['trap-' + t for t in case['traps']] + [f'steps-{len(case["picks"])}'],
                 sample=dict(script=text[:600], picks=case['picks']))

    runner.hyp_run(ctx, cases(), body, ctx.share(total))
    acc.add_extra('proposals_per_mutator', counts)


def finish(acc, tier):
    dd = env.load()
    per = acc.extra.get('proposals_per_mutator', {})
    acc.extra['mutators_without_any_proposal'] = sorted(set(env.all_mutator_classes(dd)) - set(per))
    acc.extra['proposals_total'] = sum(per.values())


def replay(case, acc, ctx):
    dd = env.load()
    env.set_options(dd, ['in.smt2', 'out.smt2', '/bin/true'])
    run_case(dd, {k: v for k, v in case.items() if k != 'focus'}, acc, ctx.workdir, {})
