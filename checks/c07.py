"""C07 - rendering and re-parsing is the identity, in every output mode."""
import os

from vlib import env, gen_lex, model, refreader, runner
from checks.c08 import classify, diff_key

PROPERTY = 'C07'
LEVEL = 'exploration'
RULE = ('exprs = parse_smtlib(text) for Hypothesis-drawn G-lex texts (so the '
        'domain is exactly "lists obtainable from the parser"); each of the four '
        'renderers (compact checking file; default, --pretty-print, --wrap-lines each as a string and through write_smtlib_to_file, the way the output file is written) '
        'must (1) re-parse to a structurally identical list (comments modulo line '
        'terminator) and (2) have the reference token sequence equal to the flat '
        'token sequence of the parsed tree.  Non-trivial: the text has a token '
        '> 78 chars, a hyphenated token, a literal/quoted symbol with special '
        'characters, a comment, an empty list or a top-level atom, or its default '
        'rendering has a line longer than 78 characters; distinct = distinct text.')
ASSUMPTIONS = [
    'domain restricted to parser output (nodes with empty leaf text or leaves '
    'containing white space outside literals are not obtainable from the parser)',
    'token sequences are computed by the independent reference tokenizer',
]

RENDERERS = ['checking', 'default', 'pretty', 'wrap', 'default-file', 'pretty-file', 'wrap-file']


def render(dd, which, exprs, workdir):
    args = dd.options.args()
    if which == 'checking':
        os.makedirs(workdir, exist_ok=True)
        fn = os.path.join(workdir, 'c07-check.smt2')
        dd.nodeio.write_smtlib_for_checking(fn, exprs)
        with open(fn, newline='') as f:
            return f.read()
    old = (args.pretty_print, args.wrap_lines)
    try:
        args.pretty_print = which.startswith('pretty')
        args.wrap_lines = which.startswith('wrap')
        if which.endswith('-file'):
            # the way the output file is written in a run
            os.makedirs(workdir, exist_ok=True)
            fn = os.path.join(workdir, 'c07-out.smt2')
            dd.nodeio.write_smtlib_to_file(fn, exprs)
            with open(fn, newline='') as f:
                return f.read()
        return dd.nodeio.write_smtlib_to_str(exprs)
    finally:
        args.pretty_print, args.wrap_lines = old


def check_exprs(dd, exprs, acc, case, workdir, renderers=RENDERERS):
    plain = gen_lex.norm_tree(model.to_plain(exprs))
    flat = refreader.flatten_top(plain)
    for r in renderers:
        try:
            out = render(dd, r, exprs, workdir)
        except Exception as e:  # noqa
            acc.violation(f'{r}/raises/{type(e).__name__}',
                          f'renderer {r} raised {e!r}', case)
            continue
        try:
            toks = refreader.tokens(out)
        except refreader.ReadError:
            toks = refreader.tokens_lenient(out)
        if toks != flat:
            i = 0
            while i < len(toks) and i < len(flat) and toks[i] == flat[i]:
                i += 1
            et = flat[i] if i < len(flat) else None
            gt = toks[i] if i < len(toks) else None
            acc.violation(
                f'{r}/tokens-differ/{classify(et)}',
                f'renderer={r} first differing token {i}: expected {et!r} got '
                f'{gt!r}; rendering={out[:300]!r}', case)
            continue
        try:
            back = gen_lex.norm_tree(
                model.to_plain(list(dd.nodeio.parse_smtlib(out))))
        except Exception as e:  # noqa
            acc.violation(f'{r}/reparse-raises/{type(e).__name__}',
                          f'renderer={r} rendering={out[:300]!r}: {e!r}', case)
            continue
        if back != plain:
            key, (i, et, gt) = diff_key(plain, back)
            acc.violation(
                f'{r}/reparse-differs/{key}',
                f'renderer={r} token {i}: expected {et!r} got {gt!r}; '
                f'rendering={out[:300]!r}', case)


def check_deep(dd, acc, workdir):
    """Nesting far beyond Python's recursion limit (comparison by flat token
    sequences only: they determine the structure)."""
    for depth in (300, 1200, 2500):
        for inner in ('x', '"a b"', '() ()'):
            text = '(assert ' + '(f ' * depth + inner + ')' * depth + ')\n(check-sat)\n'
            case = dict(text=f'<depth {depth} chain around {inner}>', depth=depth, inner=inner, kind='deep')
            exprs = list(dd.nodeio.parse_smtlib(text))
            flat = refreader.tokens(text)
            for r in RENDERERS:
                try:
                    out = render(dd, r, exprs, workdir)
                    back = refreader.flatten_top(model.to_plain(list(dd.nodeio.parse_smtlib(out))))
                except Exception as e:  # noqa
                    acc.violation(f'{r}/raises/{type(e).__name__}', f'renderer {r} on a term nested {depth} deep: {e!r}', case)
                    continue
                if refreader.tokens(out) != flat:
                    acc.violation(f'{r}/tokens-differ/deep', f'depth {depth}', case)
                elif back != flat:
                    acc.violation(f'{r}/reparse-differs/deep', f'depth {depth}', case)
            acc.case(case, nontrivial=True, classes=['deep-nesting'])


def check_long(dd, acc, workdir, shard_no, rounds):
    """Long top-level expressions (several KiB each), many different ones rendered one
    after the other in one process: a rendering must depend on its argument only, not
    on what was rendered (and freed) before."""
    import gc
    for i in range(rounds):
        n = 500 + 37 * ((i + shard_no) % 9)
        alist = [f'(p{(i * 7919 + j * 31 + shard_no) % 100003} x{j})' for j in range(n)]
        atoms = ' '.join(alist)
        text = f'(set-logic ALL)\n(assert (and {atoms}))\n(assert (or {" ".join(alist[:200])}))\n(check-sat)\n'
        case = dict(kind='long', text=f'<{n} atoms, round {i}>')
        exprs = list(dd.nodeio.parse_smtlib(text))
        flat = refreader.tokens(text)
        for r in RENDERERS:
            try:
                out = render(dd, r, exprs, workdir)
            except Exception as e:  # noqa
                acc.violation(f'{r}/raises/{type(e).__name__}', f'renderer {r} on a long expression: {e!r}', case)
                continue
            if refreader.tokens(out) != flat:
                acc.violation(f'{r}/tokens-differ/long-expression',
                              f'round {i}: rendering of a {len(text)} character input does not have its tokens '
                              f'(stale state from an earlier rendering?)', case)
        del exprs
        gc.collect()
        acc.case(case, nontrivial=True, classes=['long-expressions-in-sequence'])


def shard(ctx, acc):
    dd = env.load()
    if ctx.shard == 0:
        check_deep(dd, acc, ctx.workdir)
    if ctx.shard in (1, 2, 3, 4):
        check_long(dd, acc, ctx.workdir, ctx.shard, 25 if ctx.quick else 400)
    total = 5000 if ctx.quick else 400000
    strat = gen_lex.top(max_items=5, max_leaves=30)

    def body(doc):
        text, exp, classes = gen_lex.render(doc)
        case = dict(text=text)
        exprs = list(dd.nodeio.parse_smtlib(text))
        check_exprs(dd, exprs, acc, case, ctx.workdir)
        default = render(dd, 'default', exprs, ctx.workdir)
        if any(len(line) > 78 for line in default.split('\n')):
            classes.add('line>78')
        nt = bool(classes & {
            'long', 'hyphen', 'string-special', 'quoted-special', 'comment',
            'empty-list', 'top-atom', 'line>78', 'string-empty'
        })
        acc.case(case, nontrivial=nt, classes=sorted(classes),
                 sample=dict(text=text, default_rendering=default[:400]))

    runner.hyp_run(ctx, strat, body, ctx.share(total))


def replay(case, acc, ctx):
    dd = env.load()
    if case.get('kind') == 'deep':
        check_deep(dd, acc, ctx.workdir)
        return
    if case.get('kind') == 'long':
        check_long(dd, acc, ctx.workdir, 1, 60)
        return
    exprs = list(dd.nodeio.parse_smtlib(case['text']))
    check_exprs(dd, exprs, acc, case, ctx.workdir)
