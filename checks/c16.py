"""C16 - inferred sorts and bit-widths are never wrong."""
import re

from hypothesis import strategies as st

from vlib import env, gen_typed, guard, model, runner
from vlib.gen_typed import sort_from_plain

PROPERTY = 'C16'
LEVEL = 'exploration'
RULE = ('Hypothesis-drawn well-sorted scripts from the typed generator (Core, Ints, '
        'Reals, BV widths 1-32, FloatingPoint sorts in long and short form, Strings, '
        'ArraysEx, datatypes, UF, define-fun, parallel let, quantifiers, named '
        'annotations; every symbol bound exactly once), with the true sort of every '
        'subterm known by construction.  After the real collect_information: for '
        'every term position get_sort is None or the true sort (FP synonyms '
        'identified), get_bv_width is -1 or the true width and -1 for non-BV terms; '
        'for the three replacement kinds the statement names - default constants '
        '(Constants), existing variables (ReplaceByVariable), fresh variables '
        '(IntroduceFreshVariable) - the replacement has the true sort of the node it '
        'replaces and, for a variable, is a nullary symbol in scope there.  '
        'The mutator instances are created once per shard and asked about every script in turn (as ddSMT asks one instance about every intermediate input); a case records the first and the previous script as its history.  '
        'Non-trivial: a script containing a compound term whose sort differs from its '
        'first argument\'s sort or a width-changing operator; distinct = distinct '
        'script.')
ASSUMPTIONS = [
    'relative to the generated language; generator soundness is sampled against cvc5 --parse-only in the thorough tier (a sort error there is a harness error)',
    'only term positions are asked (not indices, sort annotations, numerals of set-info)',
    'an exception raised by get_sort/get_bv_width is not an inference (C04 covers crashes)',
]

WIDTH_CHANGING = {'concat', 'extract', 'zero_extend', 'sign_extend', 'repeat', 'bvcomp', 'fp.to_ubv', 'fp.to_sbv'}


def literal_sort(plain, script):
    """Sort of a default constant as ddSMT builds them; None if unknown."""
    if isinstance(plain, str):
        if plain in ('true', 'false'):
            return gen_typed.BOOL
        if re.match(r'^[0-9]+$', plain):
            return gen_typed.INT
        if re.match(r'^[0-9]+\.[0-9]+$', plain):
            return gen_typed.REAL
        for dt, ctors in script.dts.items():
            if any(c == plain and not f for c, f in ctors):
                return ('DT', dt)
        return None
    try:
        if plain[0] == '_' and plain[1].startswith('bv') and len(plain) == 3:
            return ('BV', int(plain[2]))
        if plain[0] == 'fp' and len(plain) == 4:
            ws = [literal_sort(x, script) for x in plain[1:]]
            if all(w and w[0] == 'BV' for w in ws) and ws[0][1] == 1:
                return ('FP', ws[1][1], ws[2][1] + 1)
    except (IndexError, ValueError, TypeError, AttributeError):
        return None
    return None


def tup(x):
    """JSON lists back to sort tuples."""
    if isinstance(x, list):
        return tuple(tup(y) for y in x)
    return x


def case_of(s):
    """JSON-able case: the script plus the ground truth by construction."""
    truth = []
    for path, t, scope in gen_typed.terms_with_scope(s):
        truth.append([list(path), list(t.sort), gen_typed.head_of(t), {k: list(v) for k, v in scope.items()},
                      bool(t.kids and t.kids[0][1].sort != t.sort)])
    return dict(cmds=s.cmds, truth=truth, consts={k: list(v) for k, v in s.consts.items()},
                funs=sorted(s.funs), defs={k: [len(v[0]), list(v[1])] for k, v in s.defs.items()},
                dts={k: [[c, len(f)] for c, f in v] for k, v in s.dts.items()})


class _S:
    pass


def instances(dd):
    """The mutator instances of one 'run': ddSMT creates its mutators once and asks the same
    instances about every intermediate input, so the check keeps them across cases too."""
    rbv = dd.mutators_core.ReplaceByVariable()
    rbv.repl_mode = 'inc'
    rbv2 = dd.mutators_core.ReplaceByVariable()
    rbv2.repl_mode = 'dec'
    return dict(consts=dd.mutators_core.Constants(), rbv=rbv, rbv2=rbv2,
                ifv=dd.mutators_smtlib.IntroduceFreshVariable())


def warm(dd, insts, cmds):
    """Ask the instances about every node of an earlier input (replay of a history)."""
    exprs = [model.to_node(dd, c) for c in cmds]
    dd.smtlib.collect_information(exprs)
    for node in dd.nodes.dfs(exprs):
        for m in insts.values():
            try:
                if m.filter(node):
                    if hasattr(m, 'mutations'):
                        list(m.mutations(node))
                    if hasattr(m, 'global_mutations'):
                        list(m.global_mutations(node, exprs))
            except Exception:  # noqa
                pass


def check_script(dd, case, acc, insts=None):
    smt = dd.smtlib
    if insts is None:
        insts = instances(dd)
        for h in case.get('history', []):
            warm(dd, insts, h)
    exprs = [model.to_node(dd, c) for c in case['cmds']]
    smt.collect_information(exprs)
    s = _S()
    s.dts = {k: [(c, [None] * n) for c, n in v] for k, v in case['dts'].items()}
    s.consts = {k: tup(v) for k, v in case['consts'].items()}
    s.funs = set(case['funs'])
    s.defs = {k: ([None] * v[0], tup(v[1])) for k, v in case['defs'].items()}
    dts = set(s.dts)
    consts_m, rbv, rbv2, ifv = insts['consts'], insts['rbv'], insts['rbv2'], insts['ifv']
    stats = dict(positions=0, sort_known=0, width_known=0, replacements=0)
    nontrivial = False
    for path, sort_, head, scope, differs in case['truth']:
        path = tuple(path)
        scope = {k: tup(v) for k, v in scope.items()}
        node = model.get_path(exprs, path)
        t = _S()
        t.sort = tup(sort_)
        t.plain = model.to_plain(node)
        stats['positions'] += 1
        if head in WIDTH_CHANGING or differs:
            nontrivial = True
        # ---- sort
        try:
            got = smt.get_sort(node)
        except Exception:  # noqa
            got = None
            acc.count('get_sort-raises/' + head)
        if got is not None:
            stats['sort_known'] += 1
            gs = sort_from_plain(model.to_plain(got), dts)
            if gs != t.sort:
                acc.violation(f'sort/{head}',
                              f'get_sort({model.render(t.plain)}) = {model.render(model.to_plain(got))}, true sort '
                              f'{model.render(gen_typed.sort_plain(t.sort)) if not isinstance(gen_typed.sort_plain(t.sort), str) else gen_typed.sort_plain(t.sort)}',
                              case)
        # ---- width
        try:
            w = smt.get_bv_width(node)
        except Exception:  # noqa
            w = -1
            acc.count('get_bv_width-raises/' + head)
        if w != -1:
            stats['width_known'] += 1
            true_w = t.sort[1] if t.sort[0] == 'BV' else None
            if w != true_w:
                acc.violation(f'width/{head}',
                              f'get_bv_width({model.render(t.plain)}) = {w}, true '
                              f'{"width " + str(true_w) if true_w else "sort is not a bit-vector"}', case)
        # ---- replacements "of the same sort"
        for mname, m in (('Constants', consts_m), ):
            try:
                if m.filter(node):
                    for simp in m.mutations(node):
                        stats['replacements'] += 1
                        r = model.to_plain(simp.substs[node.id])
                        rs = literal_sort(r, s)
                        if rs != t.sort:
                            acc.violation(f'repl/Constants/wrong-sort/{head}',
                                          f'{model.render(t.plain)} : {t.sort} may be replaced by the constant '
                                          f'{model.render(r)} : {rs}', case)
            except Exception:  # noqa
                acc.count('Constants-raises')
        for m in (rbv, rbv2):
            try:
                if m.filter(node):
                    for simp in m.mutations(node):
                        stats['replacements'] += 1
                        v = model.to_plain(simp.substs[node.id])
                        if v in scope:
                            vs = scope[v]
                            kind = None
                        elif v in s.consts:
                            vs = s.consts[v]
                            kind = None
                        elif v in s.funs or (v in s.defs and s.defs[v][0]):
                            vs, kind = None, 'function-as-variable'
                        elif v in s.defs:
                            vs, kind = s.defs[v][1], None
                        else:
                            vs, kind = None, 'out-of-scope'
                        if kind is None and vs != t.sort:
                            kind = 'wrong-sort'
                        if kind:
                            acc.violation(f'repl/ReplaceByVariable/{kind}',
                                          f'{model.render(t.plain)} : {t.sort} may be replaced by the symbol {v} '
                                          f'({kind}; its sort: {vs})', case)
            except Exception:  # noqa
                acc.count('ReplaceByVariable-raises')
        try:
            if ifv.filter(node):
                for simp in ifv.global_mutations(node, exprs):
                    stats['replacements'] += 1
                    decl = model.to_plain(simp.fresh_vars[0])
                    ds = sort_from_plain(decl[2], dts)
                    if ds != t.sort:
                        acc.violation(f'repl/IntroduceFreshVariable/wrong-sort/{head}',
                                      f'{model.render(t.plain)} : {t.sort} may be replaced by a fresh variable declared '
                                      f'{model.render(decl)}', case)
        except Exception:  # noqa
            acc.count('IntroduceFreshVariable-raises')
    return nontrivial, stats


def shard(ctx, acc):
    dd = env.load()
    from vlib import runner as r_
    total = 6000 if ctx.quick else 500000
    env.set_options(dd, ['in.smt2', 'out.smt2', '/bin/true'])

    insts = instances(dd)
    hist = []

    def body(s):
        text = model.render_list(s.cmds)
        case = case_of(s)
        # the instances have seen earlier inputs: the first and the latest go into the case
        case['history'] = [h for h in hist]
        if not hist:
            hist.append(s.cmds)
        else:
            hist[1:] = [s.cmds]
        try:
            with guard.cpu_limit(10.0):
                nt, stats = check_script(dd, case, acc, insts)
        except guard.CpuTimeout:
            acc.skip('cpu-limit')
            return
        for k, v in stats.items():
            acc.add_extra(k, v)
        acc.case(dict(script=text), nontrivial=nt, classes=sorted(s.features), sample=dict(script=text[:700]))

    # half of the scripts with unusual but legal symbol names (quoted symbols, names that
    # look like generated ones): names must not influence the inference
    strat = st.one_of(gen_typed.script(), gen_typed.script(dict(trap_names=True)))
    runner.hyp_run(ctx, strat, body, ctx.share(total))
    table_runs(ctx, acc, dd)
    if not ctx.quick and ctx.shard == 0:
        soundness_sample(ctx, acc)


def table_runs(ctx, acc, dd):
    """Real sequential ddmin / hybrid runs in which accepted steps rename symbols and change
    declared widths: whenever proposals are generated for an input, get_sort / get_bv_width must
    answer for that input - the same as after collecting the tables from it afresh (whose
    answers the in-process part compares with the ground truth)."""
    import os
    from vlib import e2e
    from vlib import spec as vspec
    opt = {}
    for theory, (mod, ms) in dd.mutators.get_all_mutators().items():
        opt.update(ms)
    argv = ['--disable-all'] + ['--' + opt[c] for c in ('SimplifySymbolNames', 'ArithmeticSimplifyConstant', 'BVReduceBW', 'EraseNode',
                                                        'ReplaceByVariable', 'SimplifyQuotedSymbols', 'Constants') if c in opt]
    n = [0]

    def body(arg):
        s, strategy, salt = arg
        n[0] += 1
        text = model.render_list(s.cmds) + '\n'
        k0 = vspec.mix(vspec.token_hash(vspec.tokens_of_text(text)), salt) % 3
        spec = dict(pred=['hash', salt, 3, [k0, (k0 + 1) % 3]], T=[0, 'sat\n', ''], F=[1, 'unsat\n', ''], noise=None, delay=None,
                    fault=None, directive=False)
        case = dict(kind='table-run', text=text, spec=spec, strategy=strategy)
        check_table_run(case, acc, os.path.join(ctx.workdir, f'run{n[0] % 3}'), argv)

    strat = st.tuples(gen_typed.script(dict(depth=2, max_asserts=3)), st.sampled_from(['ddmin', 'hybrid']), st.integers(0, 10**6))
    runner.hyp_run(ctx, strat, body, ctx.share(64 if ctx.quick else 2000), salt=47)


def check_table_run(case, acc, wd, argv):
    from vlib import e2e
    r = e2e.run_ddsmt(wd, case['text'], case['spec'], dict(strategy=case['strategy'], jobs=1, timeout=20, extra_argv=argv),
                      mode='launcher', plan=dict(check_tables=True, stop_on_repeat=True, max_accepts=80), wall_limit=120)
    if r.timed_out or r.after is None:
        acc.skip('table-run: wall limit or launcher crash')
        return
    for a in r.after.get('stale_answers', [])[:2]:
        acc.violation('run/stale-sort-or-width',
                      f'in a real run ({case["strategy"]}, -j 1), when proposals of {a["mutator"]} were generated, get_sort({a["term"]}) '
                      f'answered {a["sort"]} / width {a["width"]}; for the input at hand the answer is {a["fresh_sort"]} / {a["fresh_width"]}', case)
    acc.add_extra('table_checks_in_runs', r.after.get('table_checks', 0))
    acc.case(dict(text=case['text'], kind='table-run'), nontrivial=False, classes=['table-run', f'table-run-{case["strategy"]}'])


def soundness_sample(ctx, acc):
    """Generator soundness: cvc5 --parse-only on a sample (harness error on a
    sort error)."""
    import subprocess

    def body(s):
        text = model.render_list([c for c in s.cmds if c[0] != 'set-logic']) + '\n'
        p = subprocess.run(['cvc5', '--parse-only', '--lang=smt2', '--strings-exp'], input=text.encode(),
                           capture_output=True, timeout=60)
        if p.returncode != 0 or b'(error' in p.stdout + p.stderr:
            raise RuntimeError('generator soundness: cvc5 rejects a generated script: '
                               + (p.stdout + p.stderr).decode()[:300] + '\n' + text)
        acc.count('generator-soundness-checked')

    try:
        runner.hyp_run(ctx, gen_typed.script(), body, 800, salt=11)
    except FileNotFoundError:
        acc.count('cvc5-unavailable')


def replay(case, acc, ctx):
    dd = env.load()
    env.set_options(dd, ['in.smt2', 'out.smt2', '/bin/true'])
    if case.get('kind') == 'table-run':
        import os
        opt = {}
        for theory, (mod, ms) in dd.mutators.get_all_mutators().items():
            opt.update(ms)
        argv = ['--disable-all'] + ['--' + opt[c] for c in ('SimplifySymbolNames', 'ArithmeticSimplifyConstant', 'BVReduceBW', 'EraseNode',
                                                            'ReplaceByVariable', 'SimplifyQuotedSymbols', 'Constants') if c in opt]
        return check_table_run(case, acc, os.path.join(ctx.workdir, 'replay'), argv)
    check_script(dd, case, acc)  # fresh instances, warmed with case['history']
