"""C12 - tree equality, hashing, copying, pickling, traversal agree with
structure (model: nested lists)."""
import copy
import multiprocessing
import os
import pickle

from hypothesis import strategies as st

from vlib import env, gen_sexpr, model, runner

PROPERTY = 'C12'
LEVEL = 'exploration'
RULE = ('Hypothesis-drawn trees (empty lists, Unicode leaves, depth <= 200, width '
        '<= 300, shared subtrees) and *pairs built to collide* (copy + one edit, '
        'prefix/longer, leaf vs singleton list, permuted children, str/tuple '
        'operands) are compared with the nested-list model: == <=> model equality, '
        'equal => equal hash, deepcopy equal with fresh pairwise-distinct ids, '
        'pickle round trip in-process and through a fork-based pool (same ids, '
        'hash; tree built in the worker compares/hashes equal), ids created in '
        'concurrent workers pairwise distinct, dfs/bfs/count_*/filter_nodes equal '
        'the model\'s pre-order/level order, binary_search validity; chains up to 5000 '
        'deep (nothing may recurse on the depth).  Non-trivial: '
        'a pair differing in exactly one position / one length, or a tree with '
        'sharing, or depth >= 50 / width >= 100; distinct = distinct case.')
ASSUMPTIONS = [
    'leaf texts exclude lone surrogates (not obtainable by reading a file)',
    'tuples compared with a Node have length 0 or >= 2 (Node(*("a",)) is the leaf "a" by design)',
]

_pool = None
pool_broken = [False]


def _worker_roundtrip(arg):
    """Runs in a forked worker: receives a pickled Node + its plain form."""
    node, plain = arg
    dd = env.load()
    built = model.to_node(dd, plain)
    fresh_ids = [n.id for n in dd.nodes.dfs(built)]
    return dict(node=node,
                hash=hash(node),
                eq_built=(built == node),
                eq_built_rev=(node == built),
                hash_built=hash(built),
                ids=[n.id for n in dd.nodes.dfs(node)],
                fresh_ids=fresh_ids,
                plain=model.to_plain(node))


def _worker_ids(n):
    dd = env.load()
    return [dd.nodes.Node('w').id for _ in range(n)]


def edits(plain):
    """Strategy: a tree differing from ``plain`` in exactly one respect."""
    paths = model.paths_preorder(plain)

    def apply(choice):
        (p, sub), kind, leaf = choice
        new = None
        if kind == 'text' and isinstance(sub, str):
            new = sub + leaf
        elif kind == 'wrap':
            new = [sub]
        elif kind == 'drop-last' and isinstance(sub, list) and sub:
            new = sub[:-1]
        elif kind == 'append' and isinstance(sub, list):
            new = sub + [leaf]
        elif kind == 'swap' and isinstance(sub, list) and len(sub) >= 2 and sub[0] != sub[-1]:
            new = [sub[-1]] + sub[1:-1] + [sub[0]]
        elif kind == 'to-leaf' and isinstance(sub, list):
            new = 'L' + leaf
        if new is None:
            new = [sub, leaf]
        return replace_at(plain, p, new), kind

    return st.tuples(
        st.sampled_from(paths),
        st.sampled_from(['text', 'wrap', 'drop-last', 'append', 'swap', 'to-leaf']),
        st.sampled_from(['a', 'z', '0', '()'])).map(apply)


def replace_at(tree, path, new):
    if not path:
        return new
    t = list(tree)
    t[path[0]] = replace_at(tree[path[0]], path[1:], new)
    return t


def depth_of(t):
    d = 0
    stack = [(t, 1)]
    while stack:
        x, k = stack.pop()
        d = max(d, k)
        if not isinstance(x, str):
            stack.extend((c, k + 1) for c in x)
    return d


def case_strategy():
    base = st.one_of(gen_sexpr.tree(25), gen_sexpr.tree(25),
                     gen_sexpr.shaped_tree(),
                     gen_sexpr.tree(12, gen_sexpr.small_leaf, 4),
                     # leaves with unusual texts, among them the empty text (a leaf all the same)
                     gen_sexpr.tree(10, st.sampled_from(['', '', 'a', '()', ' ', '0', '""', 'ä€']), 4))
    single = st.builds(lambda t: dict(kind='single', a=t), base)
    pair = base.flatmap(lambda t: edits(t).map(lambda e: dict(
        kind='pair', a=t, b=e[0], edit=e[1])))
    lst = st.builds(lambda ts, k: dict(kind='list', a=ts, depth=k),
                    gen_sexpr.tree_list(6, 15), st.sampled_from([None, 1, 2, 3]))
    dag = gen_sexpr.dag_plan().map(lambda p: dict(kind='dag', a=p[0], dec=p[1]))
    # very deep chains are described by parameters only (the case must stay JSON-able)
    deep = st.builds(lambda d, w, e: dict(kind='deep', depth=d, width=w, edit=e),
                     st.sampled_from([500, 1500, 5000]), st.integers(0, 2), st.booleans())
    return st.one_of(single, single, pair, pair, lst, dag, deep)


def V(acc, key, detail, case):
    acc.violation(key, detail, case)


def check_single(dd, plain, acc, case, pool):
    nodes = dd.nodes
    n = model.to_node(dd, plain)
    if model.to_plain(n) != plain:
        raise RuntimeError('to_node/to_plain round trip broken')
    # equality with an independently built copy, both directions, hash
    m = model.to_node(dd, plain)
    if not (n == m) or not (m == n):
        V(acc, 'eq/equal-trees-unequal', f'{plain!r}', case)
    if hash(n) != hash(m):
        V(acc, 'hash/equal-trees-different-hash', f'{plain!r}', case)
    if n != n:  # noqa
        V(acc, 'eq/irreflexive', f'{plain!r}', case)
    # str / tuple operands
    if isinstance(plain, str):
        if not (n == plain) or (n == plain + 'x'):
            V(acc, 'eq/str-operand', f'{plain!r}', case)
    else:
        if n == 'a':
            V(acc, 'eq/str-operand', f'list equals str: {plain!r}', case)
        if len(plain) != 1 and all(isinstance(c, str) for c in plain):
            if not (n == tuple(plain)):
                V(acc, 'eq/tuple-operand', f'{plain!r}', case)
    if n == None:  # noqa
        V(acc, 'eq/none', f'{plain!r}', case)
    # deepcopy
    c = copy.deepcopy(n)
    pre = list(nodes.dfs(n))
    cids = [x.id for x in nodes.dfs(c)]
    if model.to_plain(c) != plain or not (c == n):
        V(acc, 'deepcopy/not-equal', f'{plain!r}', case)
    if len(set(cids)) != len(cids) or set(cids) & {x.id for x in pre}:
        V(acc, 'deepcopy/ids-not-fresh', f'{plain!r}', case)
    # pickle in-process
    try:
        r = pickle.loads(pickle.dumps(n))
    except Exception as e:  # noqa
        V(acc, f'pickle/raises-{type(e).__name__}', f'pickle round trip of {plain!r}: {e!r}', case)
        r = None
    if r is None:
        pass
    elif model.to_plain(r) != plain:
        V(acc, 'pickle/structure', f'{plain!r} -> {model.to_plain(r)!r}', case)
    else:
        if [x.id for x in nodes.dfs(r)] != [x.id for x in pre]:
            V(acc, 'pickle/id', f'{plain!r}', case)
        if [hash(x) for x in nodes.dfs(r)] != [hash(x) for x in pre]:
            V(acc, 'pickle/hash', f'{plain!r}', case)
        if not (r == n) or not (r == m) or not (m == r):
            V(acc, 'pickle/eq', f'{plain!r}', case)
    # through the fork-based pool
    res = None
    if pool is not None and not pool_broken[0]:
        try:
            res = pool.apply_async(_worker_roundtrip, ((n, plain), )).get(timeout=30)
        except multiprocessing.TimeoutError:
            # a worker that dies while unpickling its task never answers
            V(acc, 'pickle/worker-never-answers',
              f'a forked worker did not return the tree within 30 s (it died or hangs while receiving it): {plain!r}', case)
            pool_broken[0] = True
        except Exception as e:  # noqa
            V(acc, f'pickle/worker-raises-{type(e).__name__}', f'{e!r} for {plain!r}', case)
            pool_broken[0] = True
    if res is not None:
        back = res['node']
        if res['plain'] != plain or model.to_plain(back) != plain:
            V(acc, 'pickle/worker-structure', f'{plain!r}', case)
        else:
            ids = [x.id for x in pre]
            if res['ids'] != ids or [x.id for x in nodes.dfs(back)] != ids:
                V(acc, 'pickle/worker-id', f'{plain!r}', case)
            if res['hash'] != hash(n) or hash(back) != hash(n):
                V(acc, 'pickle/worker-hash', f'{plain!r}', case)
            if not res['eq_built'] or not res['eq_built_rev'] or res['hash_built'] != hash(n):
                V(acc, 'pickle/worker-built-tree', f'{plain!r}: {res["eq_built"]} {res["eq_built_rev"]}', case)
            if set(res['fresh_ids']) & set(ids):
                V(acc, 'ids-collide/worker-vs-parent', f'{plain!r}', case)
    # traversals on a Node argument
    got = [model.to_plain(x) for x in nodes.dfs(n)]
    if got != model.preorder(plain):
        V(acc, 'dfs/node', f'{plain!r}', case)
    got = [model.to_plain(x) for x in nodes.bfs(n)]
    if got != model.levelorder_list([plain]):
        V(acc, 'bfs/node', f'{plain!r}', case)
    if nodes.count_nodes(n) != len(model.preorder(plain)):
        V(acc, 'count_nodes/node', f'{plain!r}', case)
    if nodes.count_exprs(n) != model.count_exprs(plain, False):
        V(acc, 'count_exprs/node', f'{plain!r}', case)
    if nodes.contains(n, lambda x: x.is_leaf() and x.data == 'a') != any(
            t == 'a' for t in model.preorder(plain)):
        V(acc, 'contains', f'{plain!r}', case)


def check_pair(dd, a, b, acc, case):
    na, nb = model.to_node(dd, a), model.to_node(dd, b)
    want = a == b
    if (na == nb) != want or (nb == na) != want:
        V(acc, 'eq/pair', f'{a!r} vs {b!r}: model {want}', case)
    if want and hash(na) != hash(nb):
        V(acc, 'hash/pair', f'{a!r} vs {b!r}', case)
    # membership in dict / list as the mutators use it
    if (na in {nb: 1}) != want:
        V(acc, 'eq/dict-key', f'{a!r} vs {b!r}', case)
    if (na in [nb]) != want:
        V(acc, 'eq/list-member', f'{a!r} vs {b!r}', case)


def limit_depth(trees, k):
    """Model of dfs/bfs(list, max_depth=k): nodes at depth <= k; nodes at depth
    k are yielded but not descended into."""
    out = []

    def rec(t, d):
        out.append(t)
        if not isinstance(t, str) and (k is None or d < k):
            for c in t:
                rec(c, d + 1)

    for t in trees:
        rec(t, 1)
    return out


def limit_depth_bfs(trees, k):
    out = []
    queue = [(t, 1) for t in trees]
    i = 0
    while i < len(queue):
        t, d = queue[i]
        i += 1
        out.append(t)
        if not isinstance(t, str) and (k is None or d < k):
            queue.extend((c, d + 1) for c in t)
    return out


def check_list(dd, plains, k, acc, case):
    nodes = dd.nodes
    ns = [model.to_node(dd, t) for t in plains]
    got = [model.to_plain(x) for x in nodes.dfs(ns, k)]
    if got != limit_depth(plains, k):
        V(acc, f'dfs/list-depth-{k}', f'{plains!r}: {got!r}', case)
    got = [model.to_plain(x) for x in nodes.bfs(ns, k)]
    if got != limit_depth_bfs(plains, k):
        V(acc, f'bfs/list-depth-{k}', f'{plains!r}: {got!r}', case)
    if nodes.count_nodes(ns) != len(model.preorder_list(plains)):
        V(acc, 'count_nodes/list', f'{plains!r}', case)
    if nodes.count_exprs(ns) != model.count_exprs(plains, True):
        V(acc, 'count_exprs/list', f'{plains!r}', case)
    pred = lambda x: not x.is_leaf()  # noqa
    got = [model.to_plain(x) for x in nodes.filter_nodes(ns, pred, k)]
    if got != [t for t in limit_depth(plains, k) if not isinstance(t, str)]:
        V(acc, f'filter_nodes/depth-{k}', f'{plains!r}', case)
    # every node visited exactly once (by identity)
    ids = [x.id for x in nodes.dfs(ns)]
    if len(ids) != len(set(ids)) or sorted(ids) != sorted(x.id for x in nodes.bfs(ns)):
        V(acc, 'dfs/visit-once', f'{plains!r}', case)
    # list equality as cli.ddsmt_main uses it (exprs != orig_exprs)
    ms = [model.to_node(dd, t) for t in plains]
    if ns != ms:
        V(acc, 'eq/list-of-nodes', f'{plains!r}', case)


def check_dag(dd, plains, dec, acc, case):
    nodes = dd.nodes
    ns, kinds = gen_sexpr.build_dag(dd, plains, dec)
    if model.to_plain(ns) != plains:
        raise RuntimeError('build_dag changed structure')
    fresh = [model.to_node(dd, t) for t in plains]
    for x, y in zip(ns, fresh):
        if not (x == y) or hash(x) != hash(y):
            V(acc, 'eq/dag-vs-tree', f'{plains!r}', case)
    cs = [copy.deepcopy(x) for x in ns]
    ids = [y.id for x in cs for y in nodes.dfs(x)]
    if len(ids) != len(set(ids)):
        V(acc, 'deepcopy/dag-ids-not-distinct', f'{plains!r} shared={sorted(kinds)}', case)
    r = pickle.loads(pickle.dumps(ns))
    if model.to_plain(r) != plains or [y.id for y in nodes.dfs(r)] != [y.id for y in nodes.dfs(ns)]:
        V(acc, 'pickle/dag', f'{plains!r}', case)
    if [model.to_plain(x) for x in nodes.dfs(ns)] != model.preorder_list(plains):
        V(acc, 'dfs/dag', f'{plains!r}', case)
    if [model.to_plain(x) for x in nodes.bfs(ns)] != model.levelorder_list(plains):
        V(acc, 'bfs/dag', f'{plains!r}', case)
    return kinds


def check_binary_search(dd, acc):
    for n in range(0, 300):
        for (s, e) in dd.nodes.binary_search(n):
            if not (0 <= s < e <= n):
                V(acc, 'binary_search/range', f'n={n} ({s},{e})', dict(n=n))
        seq = list(dd.nodes.binary_search(n))
        # consecutive runs of intervals (emitted right-to-left) partition [0,n)
        i = 0
        den = 2
        while i < len(seq):
            level = sorted(seq[i:i + den])
            i += den
            if level[0][0] != 0 or level[-1][1] != n or any(
                    level[j][1] != level[j + 1][0] for j in range(len(level) - 1)):
                V(acc, 'binary_search/partition', f'n={n} den={den} {level}', dict(n=n))
            den *= 2


def run_case(dd, case, acc, pool):
    try:
        return _run_case(dd, case, acc, pool)
    except RuntimeError:
        raise
    except Exception as e:  # noqa  an API of ddsmt.nodes raised on a generated tree
        import traceback
        tb = traceback.extract_tb(e.__traceback__)
        where = [f.name for f in tb if '/ddsmt/' in f.filename]
        V(acc, f'raises/{type(e).__name__}@{where[-1] if where else "?"}', f'{e!r} on {case!r}'[:1500], case)
        return False, [case['kind']]


def check_deep(dd, case, acc, pool):
    """Depth far beyond Python's recursion limit: nothing in ddsmt.nodes may recurse."""
    nodes = dd.nodes
    a = gen_sexpr.deep_chain(case['depth'], case['width'])
    b = gen_sexpr.deep_chain(case['depth'], case['width'], leaf='y' if case['edit'] else 'x')
    na, nb = model.to_node(dd, a), model.to_node(dd, b)
    want = not case['edit']
    if (na == nb) != want or (hash(na) == hash(nb)) < want:
        V(acc, 'eq/deep', f'depth {case["depth"]}: == gives {na == nb}, model {want}', case)
    c = copy.deepcopy(na)
    if not (c == na) or c.id == na.id:
        V(acc, 'deepcopy/deep', f'depth {case["depth"]}', case)
    r = pickle.loads(pickle.dumps(na))
    if not (r == na) or [x.id for x in nodes.dfs(r)] != [x.id for x in nodes.dfs(na)]:
        V(acc, 'pickle/deep', f'depth {case["depth"]}', case)
    n_nodes = len(model.preorder(a))
    if nodes.count_nodes(na) != n_nodes or sum(1 for _ in nodes.dfs(na)) != n_nodes or sum(1 for _ in nodes.bfs(na)) != n_nodes:
        V(acc, 'dfs/deep', f'depth {case["depth"]}', case)
    if str(na).count('(') != case['depth']:
        V(acc, 'str/deep', f'depth {case["depth"]}', case)
    red = nodes.reduplicate([na, na])
    ids = [x.id for x in nodes.dfs(red)]
    if len(ids) != len(set(ids)):
        V(acc, 'reduplicate/deep', f'depth {case["depth"]}', case)
    sub = nodes.substitute(na, {dd.nodes.Node('x'): dd.nodes.Node('z')})
    if str(sub).count('z') != 1:
        V(acc, 'substitute/deep', f'depth {case["depth"]}', case)


def _run_case(dd, case, acc, pool):
    kind = case['kind']
    if kind == 'deep':
        check_deep(dd, case, acc, pool)
        return True, ['deep', f'depth-{case["depth"]}']
    classes = [kind]
    nt = False
    if kind == 'single':
        check_single(dd, case['a'], acc, case, pool)
        d = depth_of(case['a'])
        w = len(case['a']) if isinstance(case['a'], list) else 0
        if d >= 50:
            classes.append('depth>=50')
        if w >= 100:
            classes.append('width>=100')
        nt = d >= 50 or w >= 100 or (isinstance(case['a'], list) and [] in case['a'])
        if any(isinstance(t, str) and any(ord(ch) > 127 for ch in t)
               for t in model.preorder(case['a'])):
            classes.append('unicode-leaf')
            nt = True
    elif kind == 'pair':
        check_pair(dd, case['a'], case['b'], acc, case)
        classes.append('edit-' + case['edit'])
        nt = True
    elif kind == 'list':
        check_list(dd, case['a'], case['depth'], acc, case)
        classes.append(f'depth-limit-{case["depth"]}')
        nt = len(case['a']) >= 2
    else:
        kinds = check_dag(dd, case['a'], case['dec'], acc, case)
        classes.extend('shared-' + k for k in kinds)
        nt = bool(kinds)
    return nt, classes


def worker_runs(ctx, acc):
    """Trees sent to and from worker processes in real parallel ddmin / hybrid runs: what a
    worker works on must equal what it was sent (C05's chain oracle on traced runs; keys run/...)."""
    from checks import c05
    racc = runner.BorrowedAcc(acc, 'run/', dict(kind='ddmin-run'))
    n = [0]

    def body(case):
        n[0] += 1
        nt, classes, r = c05.run_case(case, racc, os.path.join(ctx.workdir, f'run{n[0] % 3}'))
        racc.case(case, nontrivial=nt, classes=classes + ['ddmin-run'])

    runner.hyp_run(ctx, c05.cases().filter(lambda c: c['opts']['strategy'] != 'hierarchical'), body,
                   ctx.share(48 if ctx.quick else 1200), salt=43)


def shard(ctx, acc):
    worker_runs(ctx, acc)
    global _pool
    dd = env.load()
    pool = multiprocessing.get_context('fork').Pool(2)
    try:
        if ctx.shard == 0:
            check_binary_search(dd, acc)
        # ids created concurrently in the workers are pairwise distinct
        batches = pool.map(_worker_ids, [300] * 8)
        mine = [dd.nodes.Node('p').id for _ in range(300)]
        allids = [i for b in batches for i in b] + mine
        if len(allids) != len(set(allids)):
            V(acc, 'ids-collide/concurrent', f'{len(allids) - len(set(allids))} duplicates',
              dict(kind='ids'))
        acc.count('concurrent-id-batches', len(batches))
        total = 12000 if ctx.quick else 300000

        def body(case):
            nt, classes = run_case(dd, case, acc, pool)
            sample = dict(case)
            if len(repr(sample)) > 600:
                sample = dict(kind=case['kind'], note='large case', size=len(repr(case)))
            acc.case(case, nontrivial=nt, classes=classes, sample=sample)

        runner.hyp_run(ctx, case_strategy(), body, ctx.share(total))
    finally:
        try:
            pool.terminate()
        except Exception:  # noqa  (a pool whose handler thread died on a bad pickle cannot be shut down cleanly)
            pass


def replay(case, acc, ctx):
    dd = env.load()
    if case.get('kind') == 'ddmin-run':
        from checks import c05
        c05.run_case(case, runner.BorrowedAcc(acc, 'run/', dict(kind='ddmin-run')), os.path.join(ctx.workdir, 'replay'))
        return
    if case.get('kind') in ('ids', None) or 'n' in case:
        check_binary_search(dd, acc)
        return
    pool = multiprocessing.get_context('fork').Pool(1)
    try:
        run_case(dd, case, acc, pool)
    finally:
        pool.terminate()
