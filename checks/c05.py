"""C05 - accepted inputs form a chain; stale parallel results are never adopted."""
import collections
import os
import shutil
import zlib

from hypothesis import strategies as st

from vlib import e2e, gen_run, runner
from vlib import spec as vspec

PROPERTY = 'C05'
LEVEL = 'exploration'
RULE = ('Hypothesis-drawn (script with 1-16 asserts, spec accepting the original, '
        'strategy, -j in {2,3,4,8} mostly, delay profile) run through the launcher '
        'with tracing: W = every write of the output file (main process), A = every '
        'apply_simp (base digest -> candidate digest, per process), V = every '
        'check_exprs verdict; digests are of token sequences, time is CLOCK_MONOTONIC. '
        'Schedule perturbation: the command and a wrapper around check_exprs sleep '
        'f(candidate tokens, salt) in {0,1,5,20} ms.  Oracle over the history: every '
        'W_i has an accepting V that ended before the write began; there is an A with '
        'candidate W_i and base W_(i-1) (the original for i = 1); the file at exit '
        'tokenises to W_n; every V candidate was executed by the command (its log).  '
        'In one run in six one write of the output file fails with OSError: no later element may be written.  In half of the runs the output file is read at every traced line of every write: it must hold the previous or the new element of the chain, nothing else.  '
        'Non-trivial: a run with >= 2 writes and >= 1 success that was computed but '
        'not adopted; distinct = distinct case.')
ASSUMPTIONS = [
    'interleavings are sampled (driven by content-derived delays), not enumerated',
    'tracing wrappers are installed on module attributes from /verif; ddSMT is unmodified',
]


def check_history(case, r, acc):
    """Returns (nontrivial, classes)."""
    tr = r.trace
    classes = [f'strategy-{case["opts"]["strategy"]}', f'jobs-{case["opts"]["jobs"]}']
    orig = vspec.full_digest_of_text(case['text'])
    Wb = [e for e in tr if e['e'] == 'Wb']
    We = [e for e in tr if e['e'] == 'We']
    A = [e for e in tr if e['e'] == 'A']
    V = [e for e in tr if e['e'] == 'V']
    if any(e['e'] == 'A-error' for e in tr):
        raise RuntimeError('trace wrapper failed: ' + str([e for e in tr if e['e'] == 'A-error'][:1]))
    main_pid = Wb[0]['pid'] if Wb else None
    worker_pids = {e['pid'] for e in V} - {main_pid}
    if worker_pids:
        classes.append('workers-checked')
    derivs = collections.defaultdict(set)
    for a in A:
        derivs[a['cand']].add(a['base'])
    prev = orig
    for i, w in enumerate(Wb):
        ok_v = [v for v in V if v['cand'] == w['cand'] and v['verdict'] and v['t'] <= w['t']]
        if not ok_v:
            acc.violation('write-without-verdict',
                          f'write #{i + 1} ({w["cand"]}) has no earlier accepting verdict '
                          f'({len(V)} verdicts traced)', case)
        if prev not in derivs.get(w['cand'], ()):
            stale = sorted(derivs.get(w['cand'], ()))
            acc.violation('write-not-from-predecessor',
                          f'write #{i + 1} ({w["cand"]}) was not derived from its predecessor {prev}; '
                          f'it was derived from {stale[:3]} (writes so far: {[x["cand"] for x in Wb[:i + 1]]})',
                          case)
        prev = w['cand']
    if len(We) != len(Wb):
        acc.violation('write-not-finished', f'{len(Wb)} writes begun, {len(We)} finished', case)
    if Wb:
        if r.out_text is None:
            acc.violation('final-file-not-last', 'output file missing after writes', case)
        else:
            th = vspec.full_digest_of_text(r.out_text)
            if th != Wb[-1]['cand']:
                acc.violation('final-file-not-last',
                              f'file at exit has tokens {th}, last write was {Wb[-1]["cand"]}', case)
    elif r.out_text is not None:
        acc.violation('final-file-not-last', 'output file exists but no write was traced', case)
    logged = {'%016x' % e['tokhash'] for e in r.log}
    missing = [v for v in V if v['tok'] not in logged]
    if missing and not case['opts'].get('unchecked'):
        acc.violation('verdict-without-execution',
                      f'{len(missing)} verdicts for candidates the command never saw', case)
    n_succ = len([v for v in V if v['verdict']])
    discarded = n_succ - len(Wb)
    if discarded > 0:
        classes.append('discarded-success')
    if len(Wb) >= 2:
        classes.append('writes>=2')
    par_ddmin = any(e['e'] == 'G' and e['kind'] == 'TaskGenerator' for e in tr) and bool(worker_pids) \
        and case['opts']['strategy'] in ('ddmin', 'hybrid')
    if par_ddmin:
        classes.append('ddmin-parallel-path')
    acc.add_extra('discarded_successes', max(discarded, 0))
    acc.add_extra('writes', len(Wb))
    acc.add_extra('verdicts', len(V))
    return len(Wb) >= 2 and discarded > 0, classes


@st.composite
def cases(draw):
    many = draw(st.booleans())
    c = draw(gen_run.run_case(
        strategies=('ddmin', 'ddmin', 'hierarchical', 'hybrid'),
        jobs=(2, 3, 4, 8) if not many else (2, 2, 3),
        formats=('default', ), with_cc=False, with_delay=True, comparisons=False,
        max_asserts=16 if many else 6, kinds=['hash', 'hash', 'mixed', 'monotone'], mixed_inputs=not many))
    c['delay'] = [draw(st.integers(0, 10**6)), draw(st.sampled_from([[0, 1, 5, 20], [0, 0, 3, 12], [0, 2]]))]
    if draw(st.integers(0, 5)) == 0:
        # one write of the output file fails (OSError): the file keeps the previous element, and a
        # run that went on would leave a gap in the chain
        c['fail_write'] = draw(st.integers(1, 3))
        c['opts']['jobs'] = draw(st.sampled_from([1, 1, 2]))
    return c


def run_case(case, acc, wd):
    r = e2e.run_ddsmt(wd, case['text'], case['spec'], case['opts'], mode='launcher',
                      plan=dict(trace=True, delay=case.get('delay'), stop_on_repeat=True, max_accepts=400,
                                observe_file=zlib.crc32(case['text'].encode('utf-8', 'replace')) % 2 == 0,
                                fail_write=case.get('fail_write')),
                      wall_limit=120)
    if r.timed_out or r.after is None:
        acc.skip('run-wall-limit-or-crash')
        acc.inconclusive.append(dict(why='wall limit or launcher crash', stderr=r.stderr[-400:], case=case))
        return False, [], r
    cut = bool(r.after.get('repeat') or r.after.get('too_many_accepts'))
    if cut:
        # the run revisited a content (C03's finding) and was stopped by the
        # launcher *before* that write: the history up to there is still checked
        acc.count('stopped-at-repeated-content(see C03)')
    elif r.after.get('rc') != 0:
        acc.count('run-failed(see C04)')
    if r.after.get('write_failed'):
        k = r.after['write_failed']
        wb = [e for e in r.trace if e['e'] == 'Wb']
        if len(wb) > k:
            acc.violation('write-failed-but-run-went-on',
                          f'write #{k} of the output file failed (OSError), yet {len(wb) - k} later elements were written: the file '
                          f'never held element #{k} of the chain', case)
        want = wb[k - 2]['cand'] if k >= 2 else None
        have = None if r.out_text is None else vspec.full_digest_of_text(r.out_text)
        if len(wb) == k and have != want:
            acc.violation('final-file-not-last', f'after the failed write #{k} the file holds {have}, the last element written is {want}', case)
        return False, ['failed-write', f'strategy-{case["opts"]["strategy"]}'], r
    for t in (r.after.get('torn') or [])[:3]:
        # between two elements of the chain the file held something that is neither
        acc.violation('file-content-not-in-chain',
                      f'during write #{t["write"]} the output file held a content that is neither the previous nor the new '
                      f'element of the chain: ' + ('no file' if t['size'] is None else f'{t["size"]} bytes {t["head"]!r}'), case)
    nt, classes = check_history(case, r, acc)
    al = [a for a in r.after.get('accepted_log', []) if a]
    if not cut and r.after.get('rc') == 0 and al:
        # an adoption (TaskGenerator.update / an accepted hierarchical task) that no write followed
        have = None if r.out_text is None else vspec.full_digest_of_text(r.out_text)
        if have != al[-1]:
            acc.violation('final-file-not-last-accepted',
                          f'{len(al)} inputs were adopted during the run; the file left at exit is not the last one '
                          f'({len(r.after.get("writes_log", []))} writes)', case)
    if cut:
        classes.append('stopped-at-repeat')
    return nt, classes, r


def shard(ctx, acc):
    total = 130 if ctx.quick else 1600
    n = [0]

    def body(case):
        n[0] += 1
        wd = os.path.join(ctx.workdir, f'run{n[0]}')
        nt, classes, r = run_case(case, acc, wd)
        acc.case(case, nontrivial=nt, classes=classes,
                 sample=dict(input=case['text'][:400], spec=case['spec'], opts=case['opts'],
                             history=[e['cand'] for e in r.trace if e['e'] == 'Wb'][:10]))
        shutil.rmtree(wd, ignore_errors=True)

    runner.hyp_run(ctx, cases(), body, ctx.share(total))


def finish(acc, tier):
    n = acc.evaluations or 1
    acc.extra['share_runs_with_discarded_success'] = round(acc.classes.get('discarded-success', 0) / n, 3)
    acc.extra['share_runs_on_ddmin_parallel_path'] = round(acc.classes.get('ddmin-parallel-path', 0) / n, 3)


def replay(case, acc, ctx):
    run_case(case, acc, os.path.join(ctx.workdir, 'replay'))
