"""C18 - sequential runs are reproducible."""
import os
import re
import shutil

from hypothesis import strategies as st

from vlib import e2e, gen_run, runner
from vlib import spec as vspec

PROPERTY = 'C18'
LEVEL = 'exploration'
RULE = ('Hypothesis-drawn (script, spec, -j 1, strategy, mutator subset - half of the '
        'cases with --no-introduce-fresh-variables so that the search continues '
        'behind the known fresh-name finding).  Each case is run 3 times with '
        'PYTHONHASHSEED in {0, drawn, drawn}, different command delay tables (timing '
        'perturbation) and naturally different pids.  Oracle: byte-identical output '
        'files and identical sequences of written contents (digests incl. comments). '
        'A difference is classified: a run in which a fresh variable was introduced '
        '=> bucket fresh-name; anything else => other/<what differs>.  Non-trivial: '
        '>= 2 accepted steps; distinct = distinct case.  One case in ten: the command prints its answer and then hangs on the original and on a quarter of the candidates (--timeout 0.25); in one repetition it prints only after the deadline.  In addition, for typed scripts the '
        'ordered list of all proposals of all mutators is computed in two fresh processes '
        'with different PYTHONHASHSEED (same file => same node ids) and must be identical; '
        'half of these inputs declare names colliding with this process\'s fresh names.')
ASSUMPTIONS = [
    'the command is deterministic and depends on the token sequence only; its delays differ between the repetitions',
    'runs are cut by the launcher when they revisit a content (C03) - the sequences up to the cut are still compared',
]

FRESH = re.compile(r'x[0-9]+__fresh')


@st.composite
def cases(draw):
    c = draw(gen_run.run_case(jobs=(1, ), formats=('default', ), with_cc=False, with_delay=False,
                              comparisons=False, mutator_subsets=True, max_asserts=5,
                              kinds=['hash', 'hash', 'mixed', 'monotone'], mixed_inputs=True))
    if draw(st.booleans()):
        c['opts']['extra_argv'] = list(c['opts'].get('extra_argv', [])) + ['--no-introduce-fresh-variables']
        c['fresh_disabled'] = True
    else:
        c['fresh_disabled'] = False
    if draw(st.integers(0, 3)) == 0:
        # the input already declares names of the form x<k>__fresh with small k (it may be
        # the output of an earlier ddSMT run): node ids of this run can collide with them
        ks = draw(st.lists(st.integers(3, 150), min_size=3, max_size=12, unique=True))
        c['text'] = ''.join(f'(declare-const x{k}__fresh Int)\n' for k in ks) + c['text']
        c['preexisting_fresh'] = True
    c['slow_cc'] = False
    if draw(st.integers(0, 9)) == 0:
        # a cross-check command that is uniformly slow in one repetition and fast
        # in the others: with default limits (1.5 x its own golden run time + 1 s)
        # that must not change anything
        c['spec_cc'] = draw(gen_run.spec_for(c['text'], kind='monotone'))
        c['spec_cc']['T'], c['spec_cc']['F'] = [0, 'cc-ok\n', ''], [1, 'cc-differs\n', '']
        c['opts']['timeout'] = None
        c['opts']['extra_argv'] = ['--disable-all', '--erase-node', '--constants', '--substitute-children']
        c['opts']['strategy'] = draw(st.sampled_from(['ddmin', 'hierarchical']))
        c['fresh_disabled'] = True
        c['slow_cc'] = True
    c['hang_print'] = False
    if not c["slow_cc"] and draw(st.integers(0, 9)) == 0:
        # the command prints its answer and then hangs on the original and on a quarter of
        # the candidates (golden run and these candidates time out alike); in one repetition
        # it prints only after the deadline.  What a timed-out run printed must not matter.
        th = vspec.token_hash(vspec.tokens_of_text(c['text']))
        salt = draw(st.integers(0, 10**6))
        c['spec']['fault'] = [salt, 4, {str(vspec.mix(th, salt) % 4): 'h'}]
        c['opts']['timeout'] = 0.25
        c['opts']['strategy'] = draw(st.sampled_from(['ddmin', 'hierarchical']))
        c['opts']['extra_argv'] = ['--disable-all', '--erase-node', '--substitute-children']
        c['opts'].pop('misc_argv', None)
        c['fresh_disabled'] = True
        c['hang_print'] = True
    c['hashseeds'] = ['0', str(draw(st.integers(1, 2**31))), str(draw(st.integers(1, 2**31)))]
    c['delays'] = [None, [draw(st.integers(0, 999)), [0, 1, 3]], [draw(st.integers(0, 999)), [2, 0, 0, 5]]]
    return c


def run_case(case, acc, wd):
    runs = []
    for i in range(3):
        sp = dict(case['spec'])
        sp['delay'] = case['delays'][i]
        spcc = None
        if case.get('spec_cc'):
            spcc = dict(case['spec_cc'])
            spcc['delay'] = [0, [1600]] if (case.get('slow_cc') and i == 1) else None
        r = e2e.run_ddsmt(f'{wd}-{i}', case['text'], sp, case['opts'], mode='launcher',
                          plan=dict(stop_on_repeat=True, max_accepts=300), hashseed=case['hashseeds'][i],
                          wall_limit=300 if case.get('slow_cc') else 120, spec_cc=spcc,
                          extra_env=dict(ORACLE_LATE_MS='1500') if (case.get('hang_print') and i == 1) else None)
        runs.append(r)
        shutil.rmtree(f'{wd}-{i}', ignore_errors=True)
    classes = [f'strategy-{case["opts"]["strategy"]}'] + (['slow-cross-check-in-one-repetition'] if case.get('slow_cc') else []) + \
        (['prints-then-hangs-late-in-one-repetition'] if case.get('hang_print') else []) + [
               'fresh-disabled' if case['fresh_disabled'] else 'fresh-enabled']
    if any(r.timed_out or r.after is None for r in runs):
        acc.skip('run-wall-limit-or-crash')
        return False, classes
    fresh_used = any('introduce fresh variable' in r.stderr or FRESH.search(r.out_text or '') for r in runs)
    if fresh_used:
        classes.append('fresh-variable-accepted')
    logs = [r.after['writes_log'] for r in runs]
    outs = [r.out_text for r in runs]
    exits = [r.after['rc'] for r in runs]
    what = None
    if len(set(map(tuple, logs))) > 1:
        what = 'sequence-of-accepted-inputs'
    elif len(set(outs)) > 1:
        what = 'output-bytes'
    elif len(set(exits)) > 1:
        what = 'exit-status'
    if what:
        k = min(len(x) for x in logs)
        first = next((i for i in range(k) if len({x[i] for x in logs}) > 1), k)
        detail = (f'{what} differ between repetitions (hash seeds {case["hashseeds"]}): lengths '
                  f'{[len(x) for x in logs]}, first difference at accepted step {first + 1}; '
                  f'outputs: {[(o or "")[:160] for o in outs]}')
        big = [m for o in outs for m in re.findall(r'x([0-9]+)__fresh', o or '') if int(m) >= 2**31]
        if big:
            # node ids are C ints: such a number is not a node id (known finding does not apply)
            acc.violation('other/fresh-name-is-not-a-node-id', detail + f' numbers: {big[:3]}', case)
        elif fresh_used:
            acc.violation('fresh-name', detail, case)
        else:
            acc.violation('other/' + what, detail, case)
    nt = min(len(x) for x in logs) >= 2
    if any(r.after.get('repeat') for r in runs):
        classes.append('stopped-at-repeat')
    return nt, classes


def proposal_lists(ctx, acc):
    """Candidate order is defined by insertion / BFS order only: in two fresh processes
    (same file, hence same node ids) with different PYTHONHASHSEED the ordered list of
    all proposals of all mutators must be identical.  Here the known fresh-name finding
    cannot interfere: there is no worker process that draws ids concurrently."""
    import subprocess
    from vlib import env, gen_typed, model
    tool = os.path.join(env.VERIF, 'vlib', 'propdump.py')
    os.makedirs(ctx.workdir, exist_ok=True)
    n = [0]

    def body(arg):
        s, collide, seeds = arg
        n[0] += 1
        text = model.render_list(s.cmds) + '\n'
        fn = os.path.join(ctx.workdir, f'pl{n[0]}.smt2')
        with open(fn, 'w') as f:
            f.write(text)
        outs = []
        for hs in ['0'] + [str(x) for x in seeds]:
            p = subprocess.run([e2e.PY, tool, fn] + (['collide'] if collide else []), capture_output=True, timeout=600,
                               env=dict(os.environ, PYTHONHASHSEED=hs, VERIF_REPO=env.REPO, PYTHONDONTWRITEBYTECODE='1'))
            if p.returncode != 0:
                raise RuntimeError('propdump failed: ' + p.stderr.decode()[-500:])
            outs.append(p.stdout.decode())
        os.unlink(fn)
        case = dict(kind='proposal-list', text=text, collide=collide, seeds=seeds)
        if len(set(outs)) > 1:
            a, b = [o.split('\n') for o in outs if o != outs[0]][0], outs[0].split('\n')
            i = next((k for k in range(min(len(a), len(b))) if a[k] != b[k]), min(len(a), len(b)))
            acc.violation('other/proposal-list-depends-on-process',
                          f'two fresh processes (PYTHONHASHSEED 0 vs {seeds}) enumerate different proposal lists '
                          f'for the same file: first difference at proposal {i}: {b[i:i + 1]} vs {a[i:i + 1]}', case)
        nprops = outs[0].count('\n')
        acc.add_extra('proposal_lists_compared', 1)
        acc.case(case, nontrivial=nprops >= 20, classes=['proposal-list'] + (['colliding-fresh-names'] if collide else []),
                 sample=dict(kind='proposal-list', script=text[:300], proposals=nprops))

    strat = st.tuples(gen_typed.script(dict(depth=2, max_asserts=2)), st.booleans(),
                      st.lists(st.integers(1, 2**31), min_size=1, max_size=2))
    runner.hyp_run(ctx, strat, body, ctx.share(48 if ctx.quick else 1500), salt=17)


def shard(ctx, acc):
    proposal_lists(ctx, acc)
    total = 64 if ctx.quick else 800
    n = [0]

    slow = [0]
    slow_budget = 1 if ctx.quick else 6

    def body(case):
        n[0] += 1
        if case.get('slow_cc'):
            slow[0] += 1
            if slow[0] > slow_budget:  # these cost minutes: bounded number per shard
                case = dict(case, slow_cc=False, spec_cc=None)
        nt, classes = run_case(case, acc, os.path.join(ctx.workdir, f'run{n[0]}'))
        acc.case(case, nontrivial=nt, classes=classes,
                 sample=dict(input=case['text'][:400], spec=case['spec'], opts=case['opts'],
                             hashseeds=case['hashseeds']))

    runner.hyp_run(ctx, cases(), body, ctx.share(total))


def finish(acc, tier):
    n = acc.evaluations or 1
    acc.extra['share_with_fresh_variable_accepted'] = round(acc.classes.get('fresh-variable-accepted', 0) / n, 3)


def replay(case, acc, ctx):
    if case.get('kind') == 'proposal-list':
        import subprocess
        from vlib import env
        os.makedirs(ctx.workdir, exist_ok=True)
        fn = os.path.join(ctx.workdir, 'pl.smt2')
        with open(fn, 'w') as f:
            f.write(case['text'])
        outs = []
        for hs in ['0'] + [str(x) for x in case['seeds']]:
            p = subprocess.run([e2e.PY, os.path.join(env.VERIF, 'vlib', 'propdump.py'), fn] + (['collide'] if case['collide'] else []),
                               capture_output=True, timeout=600, env=dict(os.environ, PYTHONHASHSEED=hs, VERIF_REPO=env.REPO))
            outs.append(p.stdout.decode())
        if len(set(outs)) > 1:
            acc.violation('other/proposal-list-depends-on-process', 'replayed: lists differ', case)
        return
    run_case(case, acc, os.path.join(ctx.workdir, 'replay'))
