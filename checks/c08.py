"""C08 - the reader tokenises SMT-LIB text as the standard prescribes.

Oracle: the structure G-lex rendered (known by construction) and the reference
reader (vlib/refreader.py); ddSMT's ``parse_smtlib`` must return exactly that.
"""
import os
import re

from vlib import env, gen_lex, model, refreader, runner

PROPERTY = 'C08'
LEVEL = 'exploration'
RULE = ('(i) exhaustive: every ordered pair of 15 lexeme classes x 8 separators '
        '(empty where legal, SP, TAB, LF, CR, CRLF, comment+LF, comment+CRLF) x 5 '
        'positions (top level, inside a list, directly after "(", directly '
        'before ")", at end of text); (ii) Hypothesis-drawn item trees rendered '
        'with drawn separators (G-lex).  Oracle = structure known by construction '
        '== reference reader == parse_smtlib.  Non-trivial: text contains a class '
        'boundary other than "atom SP atom" (a literal/quoted symbol with special '
        'characters, a comment, a non-space separator, an empty separator next to '
        'a parenthesis, or a top-level atom); distinct = distinct text.')
ASSUMPTIONS = [
    'texts are balanced and every pair of adjacent non-parenthesis lexemes is '
    'separated by white space or a comment (the statement\'s domain)',
    'comments are terminated by LF or CRLF (or end of text); comment leaves are '
    'compared modulo their line terminator',
    'the reference reader is validated against the by-construction structure '
    'on every case (disagreement = harness error, not a violation)',
]
EXHAUSTIVE = False  # the finite part is exhaustive; the sequence part is sampled


def classify(tok):
    if tok is None:
        return 'none'
    if isinstance(tok, list):
        return 'list'
    if tok.startswith(';'):
        return 'comment'
    if tok.startswith('"'):
        return 'string'
    if tok.startswith('|'):
        return 'quoted'
    if tok.startswith(':'):
        return 'keyword'
    if tok.startswith('#'):
        return 'bin-hex'
    if re.match(r'^[0-9]+(\.[0-9]+)?$', tok):
        return 'number'
    if tok in '()':
        return 'paren'
    return 'symbol'


def seq_with_comments(tree_list):
    """Flatten keeping comments (as tokens) - used to name the first
    difference."""
    out = []

    def rec(t):
        if isinstance(t, str):
            out.append(t)
        else:
            out.append('(')
            for c in t:
                rec(c)
            out.append(')')

    for t in tree_list:
        rec(t)
    return out


def diff_key(expected, got):
    e = seq_with_comments(expected)
    g = seq_with_comments(got)
    i = 0
    while i < len(e) and i < len(g) and e[i] == g[i]:
        i += 1
    et = e[i] if i < len(e) else None
    gt = g[i] if i < len(g) else None
    if gt is None:
        kind = 'dropped'
    elif et is None:
        kind = 'extra'
    elif et in '()' or gt in '()':
        kind = 'nesting'
    elif gt.startswith(et) or et.startswith(gt):
        kind = 'split-or-merged'
    else:
        kind = 'text'
    prev = classify(e[i - 1]) if i > 0 else 'start'
    return f'{prev}>{classify(et)}/{kind}', (i, et, gt)


def check_text(dd, text, expected, acc, case, classes=()):
    """Returns True if checked."""
    expected = gen_lex.norm_tree(expected)
    try:
        ref = gen_lex.norm_tree(refreader.read(text))
    except refreader.ReadError as e:
        raise RuntimeError(f'reference reader rejects generated text {text!r}: {e}')
    if ref != expected:
        raise RuntimeError(
            f'reference reader disagrees with construction on {text!r}: '
            f'{ref!r} vs {expected!r}')
    try:
        got = gen_lex.norm_tree(model.to_plain(list(dd.nodeio.parse_smtlib(text))))
    except Exception as e:  # noqa
        acc.violation(f'raises/{type(e).__name__}',
                      f'parse_smtlib({text!r}) raised {type(e).__name__}: {e}',
                      case)
        return True
    if got != expected:
        key, (i, et, gt) = diff_key(expected, got)
        acc.violation(
            'seq/' + key,
            f'text={text!r} expected={expected!r} got={got!r} (first difference '
            f'at token {i}: expected {et!r}, got {gt!r})', case)
    return True


def nontrivial(classes):
    interesting = {
        'string-special', 'quoted-special', 'comment', 'sep-CR', 'sep-TAB',
        'atom-directly-after-paren', 'close-directly-after-atom',
        'open-directly-after-atom', 'top-atom', 'empty-list', 'long',
        'string-empty', 'comment-directly-after-open'
    }
    return bool(interesting & set(classes))


def shard(ctx, acc):
    dd = env.load()
    # (i) finite part, sharded by index
    n_fin = 0
    for i, c in enumerate(gen_lex.finite_cases()):
        if i % ctx.nshards != ctx.shard:
            continue
        n_fin += 1
        case = dict(text=c['text'], expected=c['expected'])
        check_text(dd, c['text'], c['expected'], acc, case)
        acc.case(case, nontrivial=True, classes=['finite'],
                 sample=dict(kind='finite', key=c['key'], text=c['text']))
    acc.add_extra('finite_cases', n_fin)

    # (ii) random sequences
    total = 6000 if ctx.quick else 500000
    strat = gen_lex.top(max_items=6, max_leaves=30)

    def body(doc):
        text, exp, classes = gen_lex.render(doc)
        case = dict(text=text, expected=exp)
        check_text(dd, text, exp, acc, case)
        acc.case(dict(text=text), nontrivial=nontrivial(classes),
                 classes=sorted(classes),
                 sample=dict(kind='sequence', text=text, expected=exp))

    runner.hyp_run(ctx, strat, body, ctx.share(total))
    real_reads(ctx, acc)


def real_read_case(ctx, acc, text, exp, classes, slot):
    import subprocess
    from vlib import e2e
    expected = gen_lex.norm_tree(exp)
    wd = os.path.join(ctx.workdir, f'read{slot}')
    case = dict(kind='real-read', text=text, expected=exp)
    spec = dict(pred=['true'], T=[0, 'ok\n', ''], F=[1, '', ''], noise=None, delay=None, fault=None, directive=False)
    r = e2e.run_ddsmt(wd, text, spec, dict(timeout=20), mode='launcher', plan=dict(parse_only=True), wall_limit=120)
    if r.timed_out or r.after is None:
        acc.skip('real-read: wall limit or launcher crash')
        return
    if 'parsed' not in r.after:
        acc.violation('real-read/run-fails-before-reading', f'text={text!r}: status {r.exit}, stderr {r.stderr[-300:]!r}', case)
    else:
        got = gen_lex.norm_tree(r.after['parsed'])
        if got != expected:
            key, (i, et, gt) = diff_key(expected, got)
            acc.violation('real-read/main/' + key, f'a real run read text={text!r} as {got!r}, expected {expected!r} '
                          f'(first difference at token {i}: expected {et!r}, got {gt!r})', case)
    p = subprocess.run([e2e.PY, os.path.join(env.REPO, 'bin', 'ddsmt'), '--parser-test', r.infile, r.outfile, '/bin/true'],
                       capture_output=True, timeout=120, env=dict(os.environ, PYTHONDONTWRITEBYTECODE='1'))
    out = p.stdout.decode('utf-8', 'replace')
    # the rendering is followed by the line "None" (print() of the writer's return value)
    if out.endswith('None\n'):
        out = out[:-5]
    try:
        toks = refreader.tokens(out)
    except refreader.ReadError:
        toks = refreader.tokens_lenient(out)
    want = refreader.flatten_top(expected)
    if p.returncode != 0 or toks != want:
        i = 0
        while i < len(toks) and i < len(want) and toks[i] == want[i]:
            i += 1
        acc.violation('real-read/parser-test/' + classify(want[i] if i < len(want) else None),
                      f'--parser-test on text={text!r}: status {p.returncode}, token {i}: expected '
                      f'{want[i] if i < len(want) else None!r} got {toks[i] if i < len(toks) else None!r}', case)
    acc.case(dict(text=text, kind='real-read'), nontrivial=nontrivial(classes), classes=['real-read'] + sorted(classes))


def real_reads(ctx, acc):
    """(iii) what real runs read: the text is written to a file (no newline translation)
    and read by (a) a real run of ddSMT's main function, observed when the parsed input is
    handed to theory detection, and (b) `ddsmt --parser-test`, whose standard output is the
    rendering of the parsed input."""
    n = [0]

    def body(doc):
        text, exp, classes = gen_lex.render(doc)
        n[0] += 1
        real_read_case(ctx, acc, text, exp, classes, n[0] % 4)

    strat = gen_lex.top(max_items=5, max_leaves=20)
    runner.hyp_run(ctx, strat, body, ctx.share(320 if ctx.quick else 4000), salt=31)


def finish(acc, tier):
    acc.extra['finite_part_exhaustive'] = True


def replay(case, acc, ctx):
    dd = env.load()
    if case.get('kind') == 'real-read':
        return real_read_case(ctx, acc, case['text'], case['expected'], [], 0)
    check_text(dd, case['text'], case['expected'], acc, case)
