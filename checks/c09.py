"""C09 - a candidate is accepted iff it matches the golden run as documented."""
import collections
import itertools
import os

from hypothesis import strategies as st

from vlib import env, rule, runner, spec

PROPERTY = 'C09'
LEVEL = 'exploration'
RULE = ('(1) exhaustive: checker.matches_golden vs the independent rule on golden '
        '(exit in {0,1,-11} x out in {"", "A", "xAy"} x err likewise, or timed out) x '
        'run (same) x ignore_out x ignore_err x match_out in {None,"A"} x match_err in '
        '{None,"A"}.  (2) Hypothesis-drawn wiring cases: a subset of the nine '
        'comparison options and --unchecked, golden and candidate outcome triples for '
        'the main and the cross-check command, realised by a scripted command whose '
        'outcome is dictated by the file content and which logs its argv; the real '
        'option parser, tmpfiles, copy_binaries, do_golden_runs and check_exprs are '
        'run; verdict must equal the rule\'s (cross check against its own golden '
        'run), argv = original arguments + one file name with the input\'s extension '
        'and the candidate\'s tokens; --unchecked: accepted, nothing executed.  '
        'Non-trivial (wiring): flipping one option flips the model verdict; distinct '
        '= distinct (options, outcomes).')
ASSUMPTIONS = [
    'cells with a match string on a stream of a timed-out run (stream None) are skipped in the table when the exit codes agree: unreachable, because the golden run would have had to time out with a match string configured (covered by C10/C04)',
    'match strings for the main command occur in the golden streams (otherwise ddSMT stops before any check: C10)',
    '--unchecked is not combined with --match-out/--match-err/--match-*-cc (ddSMT treats that as a usage error: the pseudo golden output is the word "unchecked")',
]

RunInfo = collections.namedtuple('RunInfo', ['exit', 'out', 'err', 'runtime'])


def table(dd, acc):
    outcomes = [(e, o, r) for e in (0, 1, -11) for o in ('', 'A', 'xAy')
                for r in ('', 'A', 'xAy')] + [(None, None, None)]
    n = 0
    for g, r in itertools.product(outcomes, outcomes):
        for io, ie, mo, me in itertools.product((False, True), (False, True),
                                                (None, 'A'), (None, 'A')):
            if r[0] == g[0] and ((mo and not io and r[1] is None) or
                                 (me and not ie and r[2] is None)):
                acc.skip('table: match string on timed-out stream')
                continue
            want = rule.accepts(g, r, io, ie, mo, me)
            try:
                got = dd.checker.matches_golden(RunInfo(*g, 0), RunInfo(*r, 0), io, ie, mo, me)
            except Exception as e:  # noqa
                got = f'raises {type(e).__name__}'
            n += 1
            case = dict(kind='table', golden=g, run=r, ignore_out=io, ignore_err=ie,
                        match_out=mo, match_err=me)
            if got != want:
                cell = f'io={int(io)},ie={int(ie)},mo={mo},me={me}'
                acc.violation(f'rule/{cell}', f'{case!r}: matches_golden={got!r} rule={want!r}', case)
            acc.case(case, nontrivial=(want != rule.accepts(g, r, not io, ie, mo, me)
                                       or want != rule.accepts(g, r, io, not ie, mo, me)),
                     classes=['table'])
    acc.add_extra('rule_table_cells', n)


# streams are compared byte for byte: line endings and trailing white space count
WORD = st.sampled_from(['', 'A', 'xAy', 'B', 'AA', 'yes', 'A\n', 'A\r\n', 'A\r', 'A ', 'xAy\n', 'xAy\r\n'])
EXITS = st.sampled_from([0, 0, 1, 2, 3])


def triple(need_out=None, need_err=None):
    o = WORD if not need_out else st.sampled_from(['A', 'xAy', 'AA', 'A\n', 'A\r\n', 'xAy\r\n'])
    e = WORD if not need_err else st.sampled_from(['A', 'xAy', 'AA', 'A\n', 'A\r\n', 'xAy\r\n'])
    return st.tuples(EXITS, o, e)


@st.composite
def wiring_case(draw):
    opts = dict(
        ignore_output=draw(st.booleans()) and draw(st.booleans()),
        ignore_out=draw(st.booleans()),
        ignore_err=draw(st.booleans()),
        match_out=draw(st.sampled_from([None, None, 'A'])),
        match_err=draw(st.sampled_from([None, None, 'A'])),
        cmd_cc=draw(st.booleans()),
        ignore_output_cc=draw(st.booleans()),
        match_out_cc=draw(st.sampled_from([None, None, 'A'])),
        match_err_cc=draw(st.sampled_from([None, None, 'A'])),
        unchecked=draw(st.integers(0, 9)) == 0,
    )
    if opts['unchecked']:
        # the pseudo golden run of --unchecked has the fixed output "unchecked";
        # ddSMT refuses match strings that do not occur in it (usage error)
        opts['match_out'] = opts['match_err'] = None
        opts['match_out_cc'] = opts['match_err_cc'] = None
    golden = draw(triple(opts['match_out'], opts['match_err']))
    # candidates are biased towards "almost like golden"
    def near(t):
        return st.one_of(st.just(t), st.just(t),
                         st.tuples(EXITS, st.just(t[1]), st.just(t[2])),
                         st.tuples(st.just(t[0]), WORD, st.just(t[2])),
                         st.tuples(st.just(t[0]), st.just(t[1]), WORD),
                         triple())
    cand = draw(near(golden))
    golden_cc = draw(triple())
    cand_cc = draw(near(golden_cc))
    ext = draw(st.sampled_from(['.smt2', '.smt2', '.smt', '', '.txt', '.a.b']))
    extra = draw(st.lists(st.sampled_from(['--foo', '-x', 'bar', '--opt=1', 'a b', "o'brien", 'say"hi', '\\x']),
                          max_size=2))
    return dict(kind='wiring', opts=opts, golden=list(golden), cand=list(cand),
                golden_cc=list(golden_cc), cand_cc=list(cand_cc), ext=ext, extra=extra)


def extension(path):
    """The file name's extension: from the last dot of the base name (a
    leading dot does not count)."""
    base = path.rsplit('/', 1)[-1]
    i = base.rfind('.')
    return base[i:] if i > 0 else ''


def file_text(main, cc, marker):
    return (f'(set-info :x {marker})\n(behave main {main[0]} "{main[1]}" "{main[2]}")\n'
            f'(behave cc {cc[0]} "{cc[1]}" "{cc[2]}")\n')


DIRECTIVE_SPEC = dict(pred=['true'], T=[0, 'default', ''], F=[1, '', ''], directive=True)


def model_verdict(case, opts=None):
    opts = case['opts'] if opts is None else opts
    return rule.accepts_opts(opts, tuple(case['golden']), tuple(case['cand']),
                             tuple(case['golden_cc']), tuple(case['cand_cc']))


def sensitive(case):
    base = model_verdict(case)
    for k, v in case['opts'].items():
        o = dict(case['opts'])
        if isinstance(v, bool):
            o[k] = not v
        else:
            o[k] = None if v else 'A'
        if model_verdict(case, o) != base:
            return True
    return False


def run_wiring(dd, case, acc, workdir):
    os.makedirs(workdir, exist_ok=True)
    opts = case['opts']
    infile = os.path.join(workdir, 'input' + case['ext'])
    # (the output file is named differently: the candidates get the INPUT file's extension)
    outfile = os.path.join(workdir, 'output' + (case['ext'] if len(repr(case)) % 2 else '.min'))
    with open(infile, 'w') as f:
        f.write(file_text(case['golden'], case['golden_cc'], 'golden'))
    sp = spec.write_spec(DIRECTIVE_SPEC, os.path.join(workdir, 'c09.spec'))
    log = os.path.join(workdir, 'c09.log')
    if os.path.exists(log):
        os.unlink(log)
    extra_cc = [x for x in case['extra'] if ' ' not in x]
    cmd = spec.cmdline(sp, log, 'main', case['extra'])
    cmd_cc = spec.cmdline(sp, log, 'cc', extra_cc)
    argv = ['--timeout', '20', '--timeout-cc', '20']
    for flag in ('ignore_output', 'ignore_out', 'ignore_err', 'ignore_output_cc', 'unchecked'):
        if opts[flag]:
            argv.append('--' + flag.replace('_', '-'))
    for o in ('match_out', 'match_err', 'match_out_cc', 'match_err_cc'):
        if opts[o]:
            argv += ['--' + o.replace('_', '-'), opts[o]]
    if opts['cmd_cc']:
        # one argument, split by ddSMT at white space (any amount of it)
        sep = [' ', '  ', ' \t', '   '][len(repr(case)) % 4]
        argv += ['-c', sep.join(cmd_cc)]
    argv += [infile, outfile] + cmd
    a = env.set_options(dd, argv)
    dd.tmpfiles.init()
    dd.tmpfiles.copy_binaries()
    try:
        dd.checker.do_golden_runs()
    except SystemExit as e:
        # the generator only builds golden runs that satisfy their own match strings: a
        # refusal means the golden run did not see what the given command prints
        acc.violation('wiring/golden-run-refused',
                      f'the golden run of a command that satisfies its match strings was refused ({e}); '
                      f'executions: {[(c["role"], c["exit"]) for c in spec.read_log(log)]}', case)
        return
    golden_calls = spec.read_log(log)
    if os.path.exists(log):
        os.unlink(log)
    cand_text = file_text(case['cand'], case['cand_cc'], 'candidate')
    exprs = list(dd.nodeio.parse_smtlib(cand_text))
    want = model_verdict(case)
    try:
        got = dd.checker.check_exprs(exprs)
    except Exception as e:  # noqa
        got = f'raises {type(e).__name__}: {e}'
    calls = spec.read_log(log)
    on = sorted(k for k, v in opts.items() if v)
    optkey = '+'.join(on) if on else 'defaults'
    if got != want:
        acc.violation(f'wiring/{optkey}',
                      f'check_exprs={got!r} rule={want!r} case={case!r}', case)
    cand_hash = spec.token_hash(spec.tokens_of_text(cand_text))
    if opts['unchecked']:
        if calls or golden_calls:
            acc.violation('unchecked-ran', f'{len(calls) + len(golden_calls)} executions with --unchecked', case)
        return
    # golden runs: main (and cc) each executed once on the input file
    roles = [c['role'] for c in golden_calls]
    if roles != (['main', 'cc'] if opts['cmd_cc'] else ['main']):
        acc.violation('argv/golden-runs', f'golden executions: {roles}', case)
    # candidate executions
    main_calls = [c for c in calls if c['role'] == 'main']
    cc_calls = [c for c in calls if c['role'] == 'cc']
    if len(main_calls) != 1:
        acc.violation('argv/main-executions', f'{len(main_calls)} executions of the command for one check', case)
    main_ok = rule.accepts(tuple(case['golden']), tuple(case['cand']),
                           opts['ignore_output'] or opts['ignore_out'],
                           opts['ignore_output'] or opts['ignore_err'],
                           opts['match_out'], opts['match_err'])
    exp_cc = 1 if (opts['cmd_cc'] and main_ok) else 0
    if opts['cmd_cc'] and len(cc_calls) > 1 or (not opts['cmd_cc'] and cc_calls):
        acc.violation('argv/cc-executions', f'{len(cc_calls)} cross-check executions, expected <= {exp_cc}', case)
    for c, orig, extra in [(x, cmd, case['extra']) for x in main_calls] + [(x, cmd_cc, extra_cc) for x in cc_calls]:
        args = c['argv']
        if args[:-1] != orig[1:]:
            acc.violation('argv/arguments', f'argv {args!r} vs original {orig[1:]!r}', case)
        fn = args[-1]
        if extension(fn) != extension(infile):
            acc.violation('argv/extension', f'file {fn!r} for input extension {case["ext"]!r}', case)
        if c['tokhash'] != cand_hash:
            acc.violation('argv/file-content', 'file handed to the command does not hold the candidate tokens', case)


def shard(ctx, acc):
    dd = env.load()
    if ctx.shard == 0:
        table(dd, acc)
    total = 4000 if ctx.quick else 120000

    def body(case):
        run_wiring(dd, case, acc, ctx.workdir)
        classes = ['wiring'] + ['opt-' + k for k, v in case['opts'].items() if v]
        classes.append('verdict-' + str(model_verdict(case)))
        acc.case(case, nontrivial=sensitive(case), classes=classes)

    runner.hyp_run(ctx, wiring_case(), body, ctx.share(total))


def finish(acc, tier):
    acc.extra['rule_table_exhaustive'] = True


def replay(case, acc, ctx):
    dd = env.load()
    if case.get('kind') == 'table':
        g, r = tuple(case['golden']), tuple(case['run'])
        want = rule.accepts(g, r, case['ignore_out'], case['ignore_err'], case['match_out'], case['match_err'])
        got = dd.checker.matches_golden(RunInfo(*g, 0), RunInfo(*r, 0), case['ignore_out'],
                                        case['ignore_err'], case['match_out'], case['match_err'])
        if got != want:
            acc.violation('rule/replayed', f'{case!r}: {got} vs {want}', case)
    else:
        run_wiring(dd, case, acc, ctx.workdir)
