"""C03 - minimisation always terminates: no mutation cycles, no-ops, hanging
mutators."""
import collections
import os
import re
import shutil

from hypothesis import strategies as st

from vlib import e2e, env, gen_run, gen_sexpr, gen_typed, guard, model, refreader, runner
from vlib import spec as vspec

PROPERTY = 'C03'
LEVEL = 'exploration'
RULE = ('Inputs: small Hypothesis-drawn well-sorted scripts (typed generator, depth '
        '<= 2) biased to the shapes cycles need (equalities with a constant or a '
        'symbol side, lets binding a symbol, define-funs, constants in all '
        'notations), their damaged variants and hand-seeded templates.  (a) no-ops: '
        'for every node x mutator x proposal the content (token sequence incl. '
        'comments) after apply must differ from the input.  (b) cycles in the '
        'proposal graph (state = content after reduplicate + collect_information, '
        'edge = one proposal of one mutator, as Producer would produce it): bounded '
        'BFS closure + strongly connected components of the explored subgraph, and '
        'for every non-shortening first edge S->T a best-first return-path search '
        'from T to S (beam 8, depth <= 6, distance = token multiset difference).  (c) '
        'hangs: every filter/mutations/global_mutations/apply call runs under a 3 s '
        'CPU-time limit (inputs have < 120 nodes).  (d) real runs (launcher) against '
        'adversarial hash-class commands: the sequence of contents written to the '
        'output file must not repeat.  Real runs against a command that hangs on some candidates (sleeps, ignores SIGTERM, wrapper whose child keeps the pipes open) must not stall (C10 fault runs, stall witness only).  Non-trivial: an input with >= 1 non-shortening '
        'edge (in-process) / a run with >= 3 accepted steps (d); distinct = distinct '
        'input.')
ASSUMPTIONS = [
    'cycles longer than the depth bound or outside the explored subgraph are not excluded',
    'hang = more than 3 s CPU (not wall clock) in one mutator or apply call on an input of < 120 nodes',
    'cycle buckets are keyed by the set of mutators on the cycle when every input on the cycle is well-formed SMT-LIB (cvc5 --parse-only); cycles through ill-formed intermediate inputs form one coarse family (known finding)',
]

CPU = 3.0
MAX_STATES = {'quick': 40, 'thorough': 120}
SEARCH = {'quick': dict(n=6, beam=5, depth=4), 'thorough': dict(n=10, beam=6, depth=5),
          'template': dict(n=10, beam=6, depth=4)}


def content_key(dd, exprs):
    return tuple(vspec.seq_with_comments(model.to_plain(exprs)))


def all_mutators(dd):
    return [(name, cls()) for name, (mod, cls, _, _) in sorted(env.all_mutator_classes(dd).items())]


def enumerate_edges(dd, exprs, muts, acc, case, only=None):
    """-> list of (mutator name, node index, result exprs, result key); records
    hangs and no-ops."""
    try:
        dd.smtlib.collect_information(exprs)
    except Exception:  # noqa  (C04)
        return []
    base = content_key(dd, exprs)
    out = []
    for idx, node in enumerate(dd.nodes.bfs(exprs)):
        for mname, m in muts:
            if only and mname not in only:
                continue
            props = []
            phase = 'filter'
            try:
                with guard.cpu_limit(CPU):
                    if hasattr(m, 'filter') and not m.filter(node):
                        continue
                    phase = 'mutations'
                    if hasattr(m, 'mutations'):
                        props.extend(m.mutations(node))
                    phase = 'global_mutations'
                    if hasattr(m, 'global_mutations'):
                        props.extend(m.global_mutations(node, exprs))
            except guard.CpuTimeout:
                acc.violation(f'hang/{mname}.{phase}',
                              f'{mname}.{phase} on node {model.render(model.to_plain(node))[:150]} of '
                              f'{model.render_list(model.to_plain(exprs))[:300]} exceeded {CPU}s CPU', case)
                continue
            except MemoryError:
                acc.violation(f'hang/{mname}.{phase}', 'memory exhausted', case)
                continue
            except Exception:  # noqa  tolerated
                pass
            for simp in props:
                try:
                    with guard.cpu_limit(CPU):
                        res = dd.mutator_utils.apply_simp(
                            exprs, dd.mutator_utils.Simplification(dict(simp.substs), list(simp.fresh_vars)))
                        if res is None or not all(isinstance(x, dd.nodes.Node) for x in res):
                            continue
                        res = dd.nodes.reduplicate(res)
                        k = content_key(dd, res)
                except guard.CpuTimeout:
                    acc.violation(f'hang/{mname}.apply', f'apply_simp of a {mname} proposal exceeded {CPU}s CPU', case)
                    continue
                except Exception:  # noqa  (C15)
                    continue
                if k == base:
                    acc.violation(f'noop/{mname}',
                                  f'{mname} proposes a simplification of node '
                                  f'{model.render(model.to_plain(node))[:120]} that leaves the input unchanged: '
                                  f'{model.render_list(model.to_plain(exprs))[:300]}', case)
                    continue
                out.append((mname, idx, res, k))
    return out


def text_len(k):
    return sum(len(t) for t in k) + len(k)


def multiset_distance(a, b):
    ca, cb = collections.Counter(a), collections.Counter(b)
    return sum(((ca - cb) + (cb - ca)).values())


def well_formed(text):
    """cvc5 --parse-only accepts the text (None if cvc5 is unavailable)."""
    import subprocess
    lines = [ln for ln in text.split('\n') if not ln.startswith('(set-logic')]
    try:
        p = subprocess.run(['cvc5', '--parse-only', '--lang=smt2', '--strings-exp'],
                           input='\n'.join(lines).encode(), capture_output=True, timeout=30)
    except (FileNotFoundError, subprocess.TimeoutExpired):
        return None
    return p.returncode == 0 and b'(error' not in p.stdout + p.stderr


def render_tokens(seq):
    return ' '.join(seq)


def report_cycle(acc, case, names, states, how):
    texts = [render_tokens(s) for s in states]
    if all(well_formed(t) for t in texts):
        key = 'cycle/' + '+'.join(sorted(set(names)))
    else:
        # at least one input on the cycle is not well-formed SMT-LIB (or cvc5
        # is unavailable): one coarse family, see DESIGN.md C03
        key = 'cycle/on-ill-formed-input'
    path = ' -> '.join(f'[{n}] {" ".join(s)[:140]}' for n, s in zip(names, states))
    acc.violation(key, f'({how}) the proposal graph has a cycle of length {len(names)}: {path}', case)


def bfs_scc(dd, exprs, muts, acc, case, max_states):
    """Bounded closure, then every cycle inside the explored subgraph."""
    k0 = content_key(dd, exprs)
    states = {k0: exprs}
    order = [k0]
    edges = {}  # key -> list of (mutator, key)
    i = 0
    nonshort = 0
    while i < len(order) and len(states) < max_states:
        k = order[i]
        i += 1
        succ = enumerate_edges(dd, states[k], muts, acc, case)
        edges[k] = []
        for mname, idx, res, k2 in succ:
            edges[k].append((mname, k2))
            if text_len(k2) >= text_len(k):
                nonshort += 1
            if k2 not in states and len(states) < max_states:
                states[k2] = res
                order.append(k2)
    # cycle detection (iterative DFS with colours) on the explored subgraph
    colour = {}
    for root in order:
        if root in colour:
            continue
        stack = [(root, iter(edges.get(root, ())))]
        colour[root] = 1
        path = [(None, root)]
        while stack:
            node, it = stack[-1]
            adv = False
            for mname, nxt in it:
                if nxt not in edges and nxt not in colour:
                    continue  # unexplored frontier
                if colour.get(nxt) == 1:
                    # back edge: cycle from nxt ... node -> nxt
                    idx = [j for j, (_, s) in enumerate(path) if s == nxt][0]
                    names = [m for m, _ in path[idx + 1:]] + [mname]
                    sts = [s for _, s in path[idx:]]
                    report_cycle(acc, case, names, sts, 'closure')
                    continue
                if nxt not in colour:
                    colour[nxt] = 1
                    stack.append((nxt, iter(edges.get(nxt, ()))))
                    path.append((mname, nxt))
                    adv = True
                    break
            if not adv:
                colour[node] = 2
                stack.pop()
                path.pop()
    return len(states), sum(len(v) for v in edges.values()), nonshort


def return_search(dd, exprs, muts, acc, case, n=12, beam=8, depth=6):
    """For every non-shortening edge S->T: best-first search from T back to S."""
    k0 = content_key(dd, exprs)
    first = enumerate_edges(dd, exprs, muts, acc, case)
    searches = 0
    for mname, idx, res, k1 in first:
        if text_len(k1) < text_len(k0):
            continue
        if searches >= n:
            break
        searches += 1
        frontier = [(multiset_distance(k1, k0), [mname], [k0, k1], res)]
        seen = {k1}
        found = False
        for _ in range(depth):
            nxt = []
            for _, names, sts, ex in frontier:
                for m2, _, r2, k2 in enumerate_edges(dd, ex, muts, acc, case):
                    if k2 == k0:
                        report_cycle(acc, case, names + [m2], sts, 'return path')
                        found = True
                        break
                    if k2 in seen:
                        continue
                    seen.add(k2)
                    nxt.append((multiset_distance(k2, k0), names + [m2], sts + [k2], r2))
                if found:
                    break
            if found or not nxt:
                break
            nxt.sort(key=lambda x: x[0])
            frontier = nxt[:beam]
    return searches


TEMPLATES = [
    # one per documented cycle guard / known cycle shape (run in full on every run)
    '(declare-const x Int)\n(declare-const y Int)\n(assert (= x 0))\n(assert (> y 0))\n',
    '(declare-const x Int)\n(declare-const y Int)\n(assert (= x y))\n(assert (> y x))\n',
    '(declare-const x Int)\n(assert (let ((y x)) (> y 0)))\n',
    '(declare-const a Bool)\n(declare-const b Bool)\n(assert (= a b))\n(assert (or a (not b)))\n',
    '(declare-const v (_ BitVec 4))\n(declare-const w (_ BitVec 4))\n(assert (= v #b0001))\n(assert (bvult w v))\n',
    '(define-fun f ((a Int)) Int (+ a 1))\n(declare-const x Int)\n(assert (= (f x) 2))\n',
    '(declare-const s String)\n(assert (str.contains s "ab"))\n',
    '(declare-const x Real)\n(assert (= x 1.5))\n(assert (< x 2.0))\n',
    # ReplaceByVariable must not offer defined functions (loop with inlining)
    '(declare-const y Int)\n(define-fun x () Int (+ y 1))\n(assert (> x 0))\n',
    '(declare-const p Bool)\n(define-fun q () Bool (not p))\n(assert (or q p))\n',
    # EliminateVariable: target occurs in the replacement
    '(declare-const x Int)\n(declare-const y Int)\n(assert (= x (* x y)))\n(assert (> x 1))\n',
    # lets binding a symbol to itself / to another symbol
    '(declare-const a Int)\n(assert (let ((a a)) (> a 0)))\n',
    '(declare-const a Int)\n(declare-const b Int)\n(assert (let ((c a) (d b)) (> (+ c d) a)))\n',
    # constants 0/1 in every notation, symbols named like constants
    '(declare-const bv1 (_ BitVec 8))\n(assert (= bv1 (bvadd #x01 (_ bv1 8) #b00000010)))\n',
    '(declare-const x Int)\n(assert (< 0 1 2 x 10 17))\n(assert (= 2.5 (/ 5 2)))\n',
    # symbol names that shrink to constants / to each other
    '(declare-const false1 Bool)\n(declare-const x1 Bool)\n(declare-const x Bool)\n(assert (and false1 x1 x))\n',
    # fresh variables and bit-width reduction
    '(declare-const v (_ BitVec 8))\n(declare-const w (_ BitVec 4))\n(assert (= v ((_ zero_extend 4) w)))\n',
    # recursion / self reference
    '(define-fun f ((a Int)) Int (f a))\n(assert (= (f 1) 1))\n',
    '(declare-datatype D ((c) (d (s D))))\n(declare-const x D)\n(assert (= x (s (d x))))\n',
    '(declare-const x Int)\n(assert (! (> x 0) :named n))\n(check-sat-assuming (n))\n',
]


def nest(op, depth, leaf, const):
    t = leaf
    for _ in range(depth):
        t = f'({op} {t} {const})'
    return t


# time per proposal must be bounded by a small function of the input size: terms
# nested 24 deep on the first operand over a leaf whose sort ddSMT cannot infer
# (an uninterpreted function application) and over one it can
SCALING_TEMPLATES = [
    '(declare-fun f (Int) Int)\n(declare-const x Int)\n(assert (> ' + nest('+', 24, '(f x)', '1') + ' 0))\n',
    '(declare-const x Int)\n(assert (> ' + nest('*', 24, 'x', '2') + ' 0))\n',
    '(declare-fun g (Int) (_ BitVec 8))\n(declare-const x Int)\n(assert (= ' + nest('bvadd', 24, '(g x)', '#x01') + ' #x00))\n',
    '(declare-fun h (Int) Real)\n(declare-const x Int)\n(assert (< ' + nest('-', 24, '(h x)', '1.5') + ' 0.0))\n',
    '(declare-fun p (Int) Bool)\n(declare-const x Int)\n(assert ' + nest('and', 24, '(p x)', 'true') + ')\n',
    '(declare-const x Int)\n(assert (> ' + nest('ite true', 24, 'x', '0') + ' 0))\n',
]


@st.composite
def inproc_case(draw):
    kind = draw(st.sampled_from(['typed', 'typed', 'shadow', 'damaged']))
    s = draw(gen_typed.script(dict(depth=2, max_asserts=2, max_defs=1, widths=[1, 2, 4, 8],
                                   shadow=(kind == 'shadow'), formals_like_globals=(kind == 'shadow'))))
    cmds = s.cmds
    if kind == 'damaged':
        cmds, _ = draw(gen_sexpr.damaged(st.just(cmds), 2))
    return dict(kind=kind, cmds=cmds)


def run_inproc(dd, case, acc, tier, muts, max_states=None):
    exprs = [model.to_node(dd, c) for c in case['cmds']]
    n_nodes = dd.nodes.count_nodes(exprs)
    if n_nodes > 120:
        acc.skip('input too large')
        return False, {}
    if max_states is None:
        max_states = MAX_STATES[tier] if n_nodes <= 40 else MAX_STATES[tier] // 4
    st_, ed_, nonshort = bfs_scc(dd, exprs, muts, acc, case, max_states)
    searches = return_search(dd, exprs, muts, acc, case, **SEARCH[tier])
    return nonshort > 0, dict(states=st_, edges=ed_, return_searches=searches, nonshortening_edges=nonshort)


# ------------------------------------------------------------------ (d) e2e

CHAT = re.compile(r'#(\d+): (.*?) \(')


def run_e2e(case, acc, wd):
    r = e2e.run_ddsmt(wd, case['text'], case['spec'], case['opts'], mode='launcher',
                      plan=dict(stop_on_repeat=True, max_accepts=400), wall_limit=90, verbosity=())
    classes = ['e2e', f'strategy-{case["opts"]["strategy"]}']
    if r.timed_out or r.after is None:
        acc.skip('e2e wall limit')
        acc.inconclusive.append(dict(why='wall limit', case=case))
        return False, classes
    log = r.after['writes_log']
    if r.after.get('repeat'):
        dg = r.after['repeat']
        first = log.index(dg)
        by = r.after.get('writes_by', [])
        names = [n for n in by[first + 1:len(log)] if n]
        n_steps = len(log) - 1 - first
        texts = r.after.get('cycle_texts') or [None]
        tidy = all(t is not None and well_formed(t) for t in texts)
        if not tidy:
            key = 'repeat-in-run/on-ill-formed-input'
        elif n_steps == 1:
            key = 'repeat-in-run/noop/' + ('+'.join(sorted(set(names))) or '?')
        else:
            key = 'repeat-in-run/' + ('+'.join(sorted(set(names))) or '?')
        acc.violation(key, f'a real run ({case["opts"]}) wrote a content it had written {n_steps} accepted '
                      f'steps earlier; mutators on the cycle: {names}', case)
    elif r.after.get('too_many_accepts'):
        acc.violation('run-does-not-shrink', f'more than 400 accepted steps on an input of {len(case["text"])} bytes', case)
    return len(log) >= 3, classes


@st.composite
def e2e_case(draw):
    c = draw(gen_run.run_case(strategies=('hierarchical', 'hybrid', 'ddmin'), jobs=(1, 2), formats=('default', ),
                              with_cc=False, with_delay=False, comparisons=False, max_asserts=4,
                              kinds=['hash', 'hash', 'mixed']))
    c['kind'] = 'e2e'
    return c


def stall_runs(ctx, acc):
    """"Finitely many tests, then stops" also when the command hangs on some candidates
    (sleeps, ignores SIGTERM, is a wrapper whose child keeps the pipes open): C10's fault
    runs; only its stall witness counts here."""
    from checks import c10
    facc = runner.BorrowedAcc(acc, 'faulty-command/', dict(kind='fault-run'), keep=lambda k: k.startswith('stall'))
    n = [0]

    def body(case):
        n[0] += 1
        nt, classes = c10.run_fault_case(case, facc, os.path.join(ctx.workdir, f'fault{n[0] % 3}'))
        facc.case(case, nontrivial=nt, classes=classes)

    runner.hyp_run(ctx, c10.fault_case(), body, ctx.share(32 if ctx.quick else 800), salt=37)


def shard(ctx, acc):
    stall_runs(ctx, acc)
    dd = env.load()
    guard.limit_memory(4)
    env.set_options(dd, ['in.smt2', 'out.smt2', '/bin/true'])
    muts = all_mutators(dd)
    total = 96 if ctx.quick else 400

    def body(case):
        nt, stats = run_inproc(dd, case, acc, ctx.tier, muts)
        for k, v in stats.items():
            acc.add_extra(k, v)
        text = model.render_list(case['cmds'])
        acc.case(dict(script=text), nontrivial=nt, classes=['inproc-' + case['kind']],
                 sample=dict(script=text[:400], **stats))

    # the templates, each with the thorough search parameters
    for i, t in enumerate(TEMPLATES):
        if i % ctx.nshards == ctx.shard:
            case = dict(kind='template', cmds=refreader.read(t, keep_comments=False))
            nt, stats = run_inproc(dd, case, acc, 'template', muts, max_states=60)
            acc.case(dict(script=t), nontrivial=nt, classes=['inproc-template'], sample=dict(script=t, **stats))
    for i, t in enumerate(SCALING_TEMPLATES):
        if (i + 5) % ctx.nshards == ctx.shard:
            case = dict(kind='scaling-template', cmds=refreader.read(t, keep_comments=False))
            exprs = [model.to_node(dd, c) for c in case['cmds']]
            # one full enumeration of every proposal of every mutator (hang and no-op check)
            edges = enumerate_edges(dd, exprs, muts, acc, case)
            acc.case(dict(script=t), nontrivial=True, classes=['inproc-scaling-template'],
                     sample=dict(script=t[:200], proposals=len(edges)))
    runner.hyp_run(ctx, inproc_case(), body, ctx.share(total))
    n = [0]
    total2 = 48 if ctx.quick else 800

    def body2(case):
        n[0] += 1
        wd = os.path.join(ctx.workdir, f'e2e{n[0]}')
        env.set_options(dd, ['in.smt2', 'out.smt2', '/bin/true'])
        nt, classes = run_e2e(case, acc, wd)
        shutil.rmtree(wd, ignore_errors=True)
        acc.case(case, nontrivial=nt, classes=classes, sample=dict(kind='e2e', opts=case['opts'], input=case['text'][:300]))

    runner.hyp_run(ctx, e2e_case(), body2, ctx.share(total2), salt=9)


def replay(case, acc, ctx):
    dd = env.load()
    guard.limit_memory(4)
    env.set_options(dd, ['in.smt2', 'out.smt2', '/bin/true'])
    if case.get('kind') == 'fault-run':
        from checks import c10
        c10.run_fault_case(case, runner.BorrowedAcc(acc, 'faulty-command/', dict(kind='fault-run'),
                                                    keep=lambda k: k.startswith('stall')), os.path.join(ctx.workdir, 'replay'))
    elif case.get('kind') == 'e2e':
        run_e2e(case, acc, os.path.join(ctx.workdir, 'replay'))
    elif case.get('kind') == 'scaling-template':
        enumerate_edges(dd, [model.to_node(dd, c) for c in case['cmds']], all_mutators(dd), acc, case)
    else:
        run_inproc(dd, case, acc, ctx.tier, all_mutators(dd))
