"""C01 - the output file reproduces the golden behaviour (black box)."""
import os

from vlib import e2e, gen_run, refreader, runner
from vlib import spec as vspec

PROPERTY = 'C01'
LEVEL = 'exploration'
RULE = ('Hypothesis-drawn (script, command spec accepting the original, strategy in '
        '{ddmin, hierarchical, hybrid}, -j in {1,2,4}, format in {default, '
        '--pretty-print, --wrap-lines}, comparison mode in {exact, --ignore-output, '
        '--ignore-out, --ignore-err, --match-out, --match-err, token-dependent noise '
        'on a stream that is ignored or matched}, optional cross-check command with '
        'its own spec and options, command delay salt) run through the real '
        'bin/ddsmt.  Oracle on the output file: (a) the real oracle command (and '
        'cross check) re-run on it matches the golden run under the independent '
        'acceptance rule; (b) its token sequence hash is that of a candidate file '
        'the command logged (for both commands if there is a cross check); (c) input '
        'file hash unchanged; (d) no stray file next to the output.  Non-trivial: '
        'the run accepted >= 1 simplification and tokens(output) != tokens(input); '
        'distinct = distinct case.')
ASSUMPTIONS = [
    'commands are deterministic functions of the token sequence (oracle_cmd), twin-checked against the Python evaluator',
    'completion orders for -j>1 are perturbed by token-dependent delays, not enumerated',
    '--timeout 30 so that no candidate times out spuriously',
]


def check_run(case, r, acc, workdir):
    """Oracles on one finished run."""
    classes = [f'strategy-{case["opts"]["strategy"]}', f'jobs-{case["opts"]["jobs"]}',
               f'format-{case["fmt"]}', f'mode-{case["mode"]}', f'input-{case.get("source", "script")}']
    if case.get('spec_cc'):
        classes.append('cross-check')
    if r.timed_out:
        acc.inconclusive.append(f'run exceeded wall limit: {case["opts"]}')
        acc.skip('run-wall-limit')
        return False, classes
    if r.exit != 0 or 'Traceback (most recent call last)' in r.stderr:
        classes.append('run-failed')
        acc.count('run-failed(see C04)')
    if not r.input_unchanged:
        acc.violation('input-modified', 'the input file changed during the run', case)
    if r.extra_files:
        acc.violation('stray-files', f'files next to the output: {r.extra_files}', case)
    if r.out_text is None:
        classes.append('no-output')
        return False, classes
    if not any(e['argv'] and e['argv'][-1] not in (r.infile, r.infile_arg) and e['role'] == 'main' for e in r.log):
        acc.violation('output-without-any-candidate',
                      'an output file exists although the command was never run on any candidate', case)
    in_toks = vspec.tokens_of_text(case['text'])
    out_toks = vspec.tokens_of_text(r.out_text)
    # (a) re-run the real command on the output file
    sp = os.path.join(workdir, 'recheck.spec')
    vspec.write_spec(case['spec'], sp)
    relog = os.path.join(workdir, 'recheck.log')
    g = vspec.run_oracle(sp, relog, r.infile)
    c = vspec.run_oracle(sp, relog, r.outfile)
    from vlib import rule
    o = dict(case['opts'])
    gcc = ccc = None
    if case.get('spec_cc'):
        spc = os.path.join(workdir, 'recheck-cc.spec')
        vspec.write_spec(case['spec_cc'], spc)
        gcc = vspec.run_oracle(spc, relog, r.infile, 'cc')
        ccc = vspec.run_oracle(spc, relog, r.outfile, 'cc')
        o['cmd_cc'] = True
    if not rule.accepts_opts(o, g, c, gcc, ccc):
        acc.violation(f'out-not-accepted/{case["fmt"]}',
                      f'command on output gives {c!r} (cc {ccc!r}), golden {g!r} (cc {gcc!r}), options {o!r}; '
                      f'output={r.out_text[:400]!r}', case)
    # twin sanity (harness error if the two evaluators disagree)
    if e2e.accepted_by_model(case['spec'], case['opts'], case['text'], r.out_text, case.get('spec_cc')) != \
            rule.accepts_opts(o, g, c, gcc, ccc):
        raise RuntimeError('oracle twin disagreement in C01')
    # (b) token sequence is that of a logged candidate
    th = vspec.token_hash(out_toks)
    cand = [e for e in r.log if e['argv'] and e['argv'][-1] not in (r.infile, r.infile_arg)]
    for role in ['main'] + (['cc'] if case.get('spec_cc') else []):
        if not any(e['tokhash'] == th and e['role'] == role for e in cand):
            acc.violation(f'out-not-a-tested-candidate/{case["fmt"]}',
                          f'no {role} execution on a file with the output\'s token sequence '
                          f'({len(cand)} candidate executions logged); output={r.out_text[:300]!r}', case)
    # reference reader must accept the output as balanced text whenever the input was
    classes.append('accepted>=1')
    return out_toks != in_toks, classes


def shard(ctx, acc):
    total = 160 if ctx.quick else 3200
    strat = gen_run.run_case(mixed_inputs=True)
    n = [0]

    def body(case):
        n[0] += 1
        wd = os.path.join(ctx.workdir, f'run{n[0]}')
        r = e2e.run_ddsmt(wd, case['text'], case['spec'], case['opts'], mode='blackbox',
                          spec_cc=case.get('spec_cc'), wall_limit=60)
        nt, classes = check_run(case, r, acc, wd)
        acc.add_extra('tests_logged', len(r.log))
        acc.case(case, nontrivial=nt, classes=classes,
                 sample=dict(input=case['text'][:600], spec=case['spec'], opts=case['opts'],
                             output=(r.out_text or '')[:300], tests=len(r.log)))
        import shutil
        shutil.rmtree(wd, ignore_errors=True)

    runner.hyp_run(ctx, strat, body, ctx.share(total))


def replay(case, acc, ctx):
    wd = os.path.join(ctx.workdir, 'replay')
    r = e2e.run_ddsmt(wd, case['text'], case['spec'], case['opts'], mode='blackbox',
                      spec_cc=case.get('spec_cc'))
    check_run(case, r, acc, wd)
