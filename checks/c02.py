"""C02 - hierarchical/hybrid result is a fixed point of every enabled mutator."""
import os
import shutil

from hypothesis import strategies as st

from vlib import e2e, gen_run, runner
from vlib import spec as vspec

PROPERTY = 'C02'
LEVEL = 'exploration'
RULE = ('Hypothesis-drawn (script, spec accepting the original - monotone token '
        'predicates and adversarial hash-class predicates with a size floor -, '
        'strategy in {hierarchical, hybrid}, -j in {1,2,4}, random subset of enabled '
        'mutators, comparison mode, optional cross check, delay salt) run through '
        'the launcher.  Oracle 1: after main() returns, every proposal (filter / '
        'mutations / global_mutations) of every enabled mutator - taken from the '
        'registry and the parsed options, not from get_passes() - on every BFS node '
        'of the list reduce() returned is applied, rendered and judged by the Python '
        'twin of the command under the independent acceptance rule: none may be '
        'accepted.  Oracle 2: a second real run --strategy hierarchical on the output '
        'with every group/mutator toggle set explicitly to the state the first run '
        'ended with must report "unable to minimize input file" and write nothing.  '
        'Non-trivial: the run accepted >= 1 simplification and >= 1 proposal exists '
        'on the final output; distinct = distinct case.')
ASSUMPTIONS = [
    'proposals of default-constructed mutator instances are enumerated (the ident-restricted BinaryReduction of the prelude passes is a configuration, not a separate mutator)',
    'a proposal that cannot be applied or rendered counts as not accepted (C15)',
    'the hash atom canonicalises x<digits>__fresh, so verdicts do not depend on node ids',
]


def explicit_toggles(enabled):
    """after['enabled'] -> argv that pins every group and mutator."""
    argv = []
    for k, v in sorted(enabled.items()):
        if k.startswith('mutators_'):
            g = k[len('mutators_'):]
            argv.append(('--' if v or v is None else '--no-') + g)
    for k, v in sorted(enabled.items()):
        if k.startswith('mutator_') and not k.startswith('mutators_'):
            argv.append(('--' if v else '--no-') + k[len('mutator_'):].replace('_', '-'))
    return argv


def fix_plan(case):
    o = dict(case['opts'])
    gev = e2e.outcome(e2e.golden_of(case['spec'], case['text']))
    plan = dict(spec=case['spec'], opts=o, golden=list(gev))
    if case.get('spec_cc'):
        o['cmd_cc'] = True
        plan['spec_cc'] = case['spec_cc']
        plan['golden_cc'] = list(e2e.outcome(e2e.golden_of(case['spec_cc'], case['text'], 'cc')))
    return plan


def run_case(case, acc, wd, second_run=True):
    r = e2e.run_ddsmt(wd, case['text'], case['spec'], case['opts'], mode='launcher',
                      plan=dict(fixpoint=fix_plan(case), stop_on_repeat=True, max_accepts=400),
                      spec_cc=case.get('spec_cc'), wall_limit=120)
    classes = [f'strategy-{case["opts"]["strategy"]}', f'jobs-{case["opts"]["jobs"]}',
               f'mode-{case["mode"]}', 'mutators-' + ('all' if not case['opts'].get('extra_argv') else 'subset')]
    if r.timed_out or r.after is None:
        acc.skip('run-wall-limit-or-crash')
        acc.inconclusive.append(dict(why='wall limit or launcher crash', timed_out=r.timed_out,
                                     stderr=r.stderr[-600:], case=case))
        return False, classes, r
    if r.after.get('repeat') or r.after.get('too_many_accepts'):
        # a cycle: C03's finding, not C02's (the run never terminates normally)
        acc.skip('cycle-in-run(see C03)')
        return False, classes, r
    if r.after.get('rc') != 0:
        classes.append('run-failed')
        acc.count('run-failed(see C04)')
        return False, classes, r
    if 'fixpoint_error' in r.after:
        raise RuntimeError('fixpoint enumeration failed: ' + r.after['fixpoint_error'])
    fp = r.after.get('fixpoint')
    if fp is None:
        # strategy_hierarchical.reduce did not run?
        raise RuntimeError(f'no fixpoint result: {r.after!r} {r.stderr[-500:]}')
    acc.add_extra('proposals_enumerated', fp['proposals'])
    acc.add_extra('proposals_per_mutator', fp['per_mutator'])
    acc.add_extra('mutator_exceptions_tolerated', fp['raised'])
    if fp['truncated']:
        acc.skip('enumeration-truncated')
    for a in fp['accepted'][:5]:
        kind = 'noop-proposal-accepted' if a['noop'] else 'proposal-accepted'
        acc.violation(f'{kind}/{a["mutator"]}',
                      f'{a["mutator"]} on node {a["node"]} {a["node_text"]!r} of the final output is '
                      f'accepted; candidate={a["candidate"][:300]!r}; output={(r.out_text or "")[:300]!r}', case)
    nt = r.after['accepts'] >= 1 and fp['proposals'] >= 1
    if r.after['accepts'] >= 1:
        classes.append('accepted>=1')
    # ---- oracle 2: second real run on the output
    if second_run and r.out_text is not None and not fp['accepted']:
        o2 = dict(case['opts'])
        o2['strategy'] = 'hierarchical'
        o2['extra_argv'] = explicit_toggles(r.after['enabled'])
        o2.pop('pretty_print', None)
        o2.pop('wrap_lines', None)
        r2 = e2e.run_ddsmt(wd + '-second', r.out_text, case['spec'], o2, mode='blackbox',
                           spec_cc=case.get('spec_cc'), wall_limit=120)
        classes.append('second-run')
        if r2.timed_out:
            acc.skip('second-run-wall-limit')
        elif r2.exit != 0 or 'Traceback (most recent call last)' in r2.stderr:
            acc.count('second-run-failed(see C04)')
        elif r2.out_text is not None or 'unable to minimize input file' not in r2.stderr:
            import re
            steps = re.findall(r'#1: (.*?) \(', r2.stderr)
            acc.violation('second-run-minimises/' + (steps[0] if steps else '?'),
                          f'a second hierarchical run on the output found: {steps[:3]}; first output='
                          f'{r.out_text[:300]!r}; second output={(r2.out_text or "")[:300]!r}', case)
        shutil.rmtree(wd + '-second', ignore_errors=True)
    return nt, classes, r


@st.composite
def damaged_case(draw):
    """Ill-formed inputs (a deleted / duplicated / swapped child, an atom where a list is due):
    some mutator may fail at such a node - the others must still be asked about it."""
    from vlib import gen_sexpr, model, refreader
    base = gen_run.script(1, 4).map(lambda t: refreader.read(t, keep_comments=False))
    trees, ops = draw(gen_sexpr.damaged(base, 3))
    text = model.render_list(trees) + '\n'
    c = draw(gen_run.run_case(strategies=('hierarchical', 'hierarchical', 'hybrid'), formats=('default', ), mutator_subsets=False,
                              kinds=['monotone', 'hash', 'hash', 'mixed'], max_asserts=1))
    c['text'] = text
    c['spec'] = draw(gen_run.spec_for(text, kind=draw(st.sampled_from(['monotone', 'hash', 'mixed']))))
    c['spec_cc'] = None
    c['source'] = 'damaged'
    return c


def shard(ctx, acc):
    total = 130 if ctx.quick else 1600
    strat = st.one_of(gen_run.run_case(strategies=('hierarchical', 'hybrid'), formats=('default', ),
                                       mutator_subsets=True, kinds=['monotone', 'hash', 'hash', 'mixed'], mixed_inputs=True),
                      gen_run.run_case(strategies=('hierarchical', 'hybrid'), formats=('default', ),
                                       mutator_subsets=True, kinds=['monotone', 'hash', 'hash', 'mixed'], mixed_inputs=True),
                      gen_run.run_case(strategies=('hierarchical', 'hybrid'), formats=('default', ),
                                       mutator_subsets=True, kinds=['monotone', 'hash', 'hash', 'mixed'], mixed_inputs=True),
                      damaged_case(), damaged_case())
    n = [0]

    def body(case):
        n[0] += 1
        wd = os.path.join(ctx.workdir, f'run{n[0]}')
        nt, classes, r = run_case(case, acc, wd)
        acc.case(case, nontrivial=nt, classes=classes,
                 sample=dict(input=case['text'][:500], spec=case['spec'], opts=case['opts'],
                             output=(r.out_text or '')[:300],
                             proposals=(r.after or {}).get('fixpoint', {}).get('proposals')))
        shutil.rmtree(wd, ignore_errors=True)

    runner.hyp_run(ctx, strat, body, ctx.share(total))


def replay(case, acc, ctx):
    run_case(case, acc, os.path.join(ctx.workdir, 'replay'))
