"""C17 - rewrites documented as identities preserve sort and value."""
import itertools

from hypothesis import strategies as st

from vlib import env, gen_typed, guard, model, runner, smteval

PROPERTY = 'C17'
LEVEL = 'exploration'
RULE = ('For exactly the mutators the property lists, Hypothesis-drawn well-sorted '
        'scripts (typed generator, evaluable fragment: Core/Ints/Reals/BV widths '
        '1-8/datatypes/UF/define-fun/let/quantifiers; shapes biased to what the '
        'filters accept: all constant notations, nested extensions, extract of '
        'zero_extend / constants, double negations, reflexive nand, bvcomp and ite '
        'forms, false equalities, selector of constructor, calls whose actuals '
        'mention names equal to formals, parallel lets) are rewritten at every term '
        'position the mutator accepts; original and replacement are evaluated by the '
        'independent evaluator under 16 assignments to all free symbols (corner '
        'values 0, 1, 2^w-1, sign bit included): same sort and same value.  Binary '
        'forms only where the statement says so.  BVMergeReducedBW is compared at '
        'script level on its own instance family; FPShortSort exhaustively over the '
        '(eb, sb) grid.  Shadowing lets are a separate class (own bucket).  '
        'Non-trivial: an instance with >= 1 free variable for which a proposal was '
        'produced; distinct = (mutator, original term).')
ASSUMPTIONS = [
    'relative to the evaluator (validated against z3 by tools/validate_eval.py); Int quantifiers are interpreted over {-2..2} (the listed identities are domain-independent)',
    'division by zero and selectors applied to the wrong constructor are fixed total functions, the same on both sides',
]

LISTED = {
    'bv': ['BVNormalizeConstants', 'BVEvalExtend', 'BVExtractConstants', 'BVExtractZeroExtend', 'BvMergeExtend',
           'BVDoubleNegation', 'BVReflexiveNand', 'BVIteToBVComp', 'BVElimBVComp'],
    'boolean': ['BoolDoubleNegation', 'BoolDeMorgan', 'BoolEliminateFalseEquality', 'BoolXOREliminateBinary',
                'BoolNegateQuantifier', 'BoolEliminateImplication'],
    'arithmetic': ['ArithmeticNegateRelation'],
    'smtlib': ['InlineDefinedFuns', 'LetSubstitution'],
    'datatypes': ['RemoveDatatypeIdentity'],
}
BINARY_ONLY = {'BoolEliminateFalseEquality', 'BoolEliminateImplication', 'BVElimBVComp'}
NASSIGN = 16


def tup(x):
    if isinstance(x, list):
        return tuple(tup(y) for y in x)
    return x


def case_of(s):
    terms = []
    for path, t, scope in gen_typed.terms_with_scope(s):
        terms.append([list(path), {k: list(v) for k, v in scope.items()}])
    return dict(cmds=s.cmds, terms=terms, consts={k: list(v) for k, v in s.consts.items()},
                funs={k: [[list(a) for a in v[0]], list(v[1])] for k, v in s.funs.items()},
                defs={k: [[[n, list(so)] for n, so in v[0]], list(v[1]), v[2].plain] for k, v in s.defs.items()},
                dts={k: [[c, [[sel, list(so)] for sel, so in f]] for c, f in v] for k, v in s.dts.items()},
                shadow='shadowing-let' in s.features)


def contexts(case):
    """NASSIGN evaluation contexts (assignments to the free symbols)."""
    dts = {k: [(c, [(sel, tup(so)) for sel, so in f]) for c, f in v] for k, v in case['dts'].items()}
    base = smteval.Ctx(dts=dts)
    out = []
    for a in range(NASSIGN):
        consts = {}
        for name, so in case['consts'].items():
            consts[name] = (tup(so), smteval.default_value(tup(so), base, smteval.hashval(name, a)))
        out.append(smteval.Ctx(
            consts=consts,
            funs={k: ([tup(x) for x in v[0]], tup(v[1])) for k, v in case['funs'].items()},
            defs={k: ([(n, tup(so)) for n, so in v[0]], tup(v[1]), v[2]) for k, v in case['defs'].items()},
            dts=dts, salt=a))
    return out


def free_symbols(plain, names):
    return {t for t in model.preorder(plain) if isinstance(t, str) and t in names}


def compare(mname, orig, repl, scope, ctxs, acc, case, shadow):
    """Evaluate both sides under every assignment; record violations."""
    suffix = '/shadowing' if shadow else ''
    evaluated = 0
    for a, ctx in enumerate(ctxs):
        envv = {}
        try:
            for name, so in scope.items():
                envv[name] = (so, smteval.default_value(so, ctx, smteval.hashval('scope', name, a)))
            so1, v1 = smteval.ev(orig, ctx, envv)
        except smteval.EvalError:
            return 'skipped'
        except smteval.SortError as e:
            raise RuntimeError(f'generator/evaluator disagreement on the ORIGINAL term {model.render(orig)}: {e}')
        try:
            so2, v2 = smteval.ev(repl, ctx, envv)
        except smteval.EvalError:
            return 'skipped'
        except smteval.SortError as e:
            acc.violation(f'{mname}/sort{suffix}',
                          f'{mname}: {model.render(orig)}  -->  {model.render(repl)} is ill-sorted: {e}',
                          dict(case, focus=[mname, model.render(orig)]))
            return 'violation'
        if so1 != so2:
            acc.violation(f'{mname}/sort{suffix}',
                          f'{mname}: {model.render(orig)} : {so1}  -->  {model.render(repl)} : {so2}',
                          dict(case, focus=[mname, model.render(orig)]))
            return 'violation'
        evaluated += 1
        if v1 != v2:
            asg = {k: v[1] for k, v in list(ctx.consts.items())[:8]}
            acc.violation(f'{mname}/value{suffix}',
                          f'{mname}: {model.render(orig)} = {v1}  but  {model.render(repl)} = {v2} under {asg} '
                          f'(bound: { {k: v[1] for k, v in envv.items()} })',
                          dict(case, focus=[mname, model.render(orig)]))
            return 'violation'
    return 'ok'


def z3_equivalent(case, orig, repl, scope):
    """Secondary oracle (thorough tier): z3 must not find an assignment that
    distinguishes the two terms.  Returns 'unsat' | 'sat' | 'unknown'."""
    import subprocess
    if 'divisible' in model.render(orig) + model.render(repl):
        return 'unknown'
    lines = [model.render(c) for c in case['cmds']
             if c and c[0] in ('declare-datatype', 'declare-datatypes', 'declare-const', 'declare-fun', 'define-fun')]
    for n, so in scope.items():
        if n in case['consts']:
            return 'unknown'  # a formal that hides a global: cannot be declared twice
        sp = gen_typed.sort_plain(so)
        lines.append(f'(declare-const {n} {sp if isinstance(sp, str) else model.render(sp)})')
    lines.append(f'(assert (distinct {model.render(orig)} {model.render(repl)}))')
    lines.append('(check-sat)')
    try:
        p = subprocess.run(['z3', '-in', '-smt2', '-T:5'], input='\n'.join(lines).encode(), capture_output=True, timeout=30)
    except (FileNotFoundError, subprocess.TimeoutExpired):
        return 'unknown'
    out = p.stdout.decode()
    if 'error' in out:
        return 'unknown'
    if out.strip().startswith('unsat'):
        return 'unsat'
    if out.strip().startswith('sat'):
        return 'sat'
    return 'unknown'


def naive_substitution(mname, orig, case):
    """What binder-unaware, simultaneous, outermost-first structural
    substitution (the documented mechanism) yields; None if not applicable."""
    try:
        if mname == 'InlineDefinedFuns':
            name = orig if isinstance(orig, str) else orig[0]
            formals, _, body = case['defs'][name]
            actuals = [] if isinstance(orig, str) else orig[1:]
            if len(actuals) != len(formals):
                return None
            return model.subst_struct([body], [(f[0], a) for f, a in zip(formals, actuals)])[0]
        return None  # LetSubstitution proposes one variable at a time: several candidates
    except (KeyError, IndexError, TypeError):
        return None


def naive_let_candidates(orig):
    out = []
    try:
        for b in orig[1]:
            out.append(['let', orig[1], model.subst_struct([orig[2]], [(b[0], b[1])])[0]])
    except (IndexError, TypeError):
        pass
    return out


def mutators_listed(dd):
    out = []
    mods = dict(bv=dd.mutators_bv, boolean=dd.mutators_boolean, arithmetic=dd.mutators_arithmetic,
                smtlib=dd.mutators_smtlib, datatypes=dd.mutators_datatypes)
    for g, names in LISTED.items():
        for n in names:
            out.append((n, getattr(mods[g], n)()))
    return out


def check_script(dd, case, acc, muts, z3_budget=None):
    exprs = [model.to_node(dd, c) for c in case['cmds']]
    dd.smtlib.collect_information(exprs)
    ctxs = contexts(case)
    names = set(case['consts'])
    counts = {}
    nt = False
    for path, scope in case['terms']:
        node = model.get_path(exprs, tuple(path))
        scope = {k: tup(v) for k, v in scope.items()}
        for mname, m in muts:
            try:
                if not m.filter(node):
                    continue
                if mname in BINARY_ONLY and len(node) != 3:
                    continue
                if mname == 'ArithmeticNegateRelation' and len(node[1]) != 3:
                    continue
                with guard.cpu_limit(3.0):
                    props = list(m.mutations(node))
            except guard.CpuTimeout:
                acc.violation(f'{mname}/hang', f'{mname}.mutations({model.render(model.to_plain(node))}) did not '
                              f'return within 3 s CPU', dict(case, focus=[mname, model.render(model.to_plain(node))]))
                continue
            except Exception:  # noqa  (tolerated: no proposal)
                acc.count(f'raises/{mname}')
                continue
            orig = model.to_plain(node)
            for simp in props:
                if list(simp.substs) != [node.id] or simp.fresh_vars:
                    continue
                repl = simp.substs[node.id]
                if repl is None:
                    continue
                # a formal parameter that hides a global of the same name is
                # shadowing as well (its own class, see DESIGN.md C17)
                shadow = case['shadow'] or bool(set(scope) & names)
                if shadow and mname in ('InlineDefinedFuns', 'LetSubstitution'):
                    # the known root cause is *binder-unaware but otherwise
                    # correct* structural substitution: only a replacement that is
                    # exactly the simultaneous structural substitution belongs to
                    # that class; anything else is a different defect
                    rp = model.to_plain(repl)
                    if mname == 'LetSubstitution':
                        shadow = rp in naive_let_candidates(orig)
                    else:
                        shadow = rp == naive_substitution(mname, orig, case)
                r = compare(mname, orig, model.to_plain(repl), scope, ctxs, acc, case, shadow)
                counts[mname] = counts.get(mname, 0) + 1
                acc.count(f'{mname}:{r}')
                if z3_budget and z3_budget[0] > 0 and r == 'ok' and not shadow:
                    z3_budget[0] -= 1
                    z = z3_equivalent(case, orig, model.to_plain(repl), scope)
                    acc.count(f'z3-{z}')
                    if z == 'sat':
                        acc.violation(f'{mname}/value-z3', f'z3 distinguishes {model.render(orig)} and '
                                      f'{model.render(model.to_plain(repl))}', dict(case, focus=[mname, model.render(orig)]))
                if r == 'ok' and (free_symbols(orig, names) or free_symbols(orig, set(scope))):
                    nt = True
                    acc.nontrivial.add(runner.digest([mname, orig]))
    return nt, counts


# ------------------------------------------------------- BVMergeReducedBW

@st.composite
def merge_case(draw):
    k = draw(st.integers(1, 6))
    n = draw(st.integers(1, 5))
    m = draw(st.integers(1, 5))
    name = draw(st.sampled_from(['w', 'v7', 'x']))
    return dict(kind='merge', k=k, n=n, m=m, name=name)


def check_merge(dd, case, acc):
    k, n, m, w = case['k'], case['n'], case['m'], case['name']
    cmds = [['declare-const', '__' + w, ['_', 'BitVec', str(k)]],
            ['define-fun', '_' + w, [], ['_', 'BitVec', str(k + n)], [['_', 'zero_extend', str(n)], '__' + w]],
            ['define-fun', w, [], ['_', 'BitVec', str(k + n + m)], [['_', 'zero_extend', str(m)], '_' + w]],
            ['assert', ['=', w, w]]]
    exprs = [model.to_node(dd, c) for c in cmds]
    dd.smtlib.collect_information(exprs)
    mut = dd.mutators_bv.BVMergeReducedBW()
    node = exprs[2]
    try:
        if not mut.filter(node):
            acc.count('BVMergeReducedBW:filter-rejects-instance')
            return
        props = list(mut.mutations(node))
    except Exception as e:  # noqa
        acc.count('raises/BVMergeReducedBW')
        return
    for simp in props:
        new = model.to_plain(simp.substs[node.id])
        for val in {0, 1, (1 << k) - 1, 1 << (k - 1), (5 * k + 3) % (1 << k)}:
            ctx0 = smteval.Ctx(consts={'__' + w: (('BV', k), val)},
                               defs={'_' + w: ([], ('BV', k + n), cmds[1][4])})
            try:
                so1, v1 = smteval.ev(cmds[2][4], ctx0, {})
                if new[0] != 'define-fun' or new[1] != w or new[2] != []:
                    raise smteval.SortError(f'not a definition of {w}: {new}')
                decl = gen_typed.sort_from_plain(new[3])
                so2, v2 = smteval.ev(new[4], ctx0, {})
                if decl != so2:
                    raise smteval.SortError(f'declared {decl}, body {so2}')
            except smteval.SortError as e:
                acc.violation('BVMergeReducedBW/sort', f'{model.render(cmds[2])} --> {model.render(new)}: {e}', case)
                return
            if (so1, v1) != (so2, v2):
                acc.violation('BVMergeReducedBW/value',
                              f'{model.render(cmds[2])} --> {model.render(new)}: {v1} vs {v2} for __{w}={val}', case)
                return
        acc.count('BVMergeReducedBW:ok')
        acc.nontrivial.add(runner.digest(['merge', k, n, m]))


# ------------------------------------------------------------ FPShortSort

FP_TABLE = {(5, 11): 'Float16', (8, 24): 'Float32', (11, 53): 'Float64', (15, 113): 'Float128'}


def check_fp_short(dd, acc):
    mut = dd.mutators_fp.FPShortSort()
    n = 0
    for eb, sb in itertools.product(range(2, 20), list(range(2, 60)) + [112, 113, 114]):
        node = model.to_node(dd, ['_', 'FloatingPoint', str(eb), str(sb)])
        case = dict(kind='fpshort', eb=eb, sb=sb)
        n += 1
        try:
            props = list(mut.mutations(node)) if mut.filter(node) else []
        except Exception:  # noqa
            props = []
        want = FP_TABLE.get((eb, sb))
        got = [model.to_plain(p.substs[node.id]) for p in props]
        if any(g != want for g in got):
            acc.violation('FPShortSort/sort', f'(_ FloatingPoint {eb} {sb}) --> {got} (synonym: {want})', case)
        acc.case(case, nontrivial=bool(want), classes=['fpshort'])
    acc.add_extra('fp_grid_cells', n)


def shard(ctx, acc):
    dd = env.load()
    env.set_options(dd, ['in.smt2', 'out.smt2', '/bin/true'])
    muts = mutators_listed(dd)
    if ctx.shard == 0:
        check_fp_short(dd, acc)
    total = 2500 if ctx.quick else 300000
    z3_budget = [0 if ctx.quick else 1500]

    def body(arg):
        s, = arg
        case = case_of(s)
        try:
            with guard.cpu_limit(60.0):
                nt, counts = check_script(dd, case, acc, muts, z3_budget)
        except guard.CpuTimeout:
            acc.skip('cpu-limit')
            return
        text = model.render_list(s.cmds)
        acc.case(dict(script=text), nontrivial=False, classes=['script'] + (['shadowing-profile'] if case['shadow'] else []) + [f for f in s.features if f in ('actual-mentions-formal-name', 'shadowing-let', 'defapp', 'let')],
                 sample=dict(script=text[:500], rewrites=counts))
        if nt and len(acc.samples) < acc.MAX_SAMPLES:
            acc.samples.append(dict(script=text[:500], rewrites=counts))

    prof = dict(gen_typed.EVAL_PROFILE, formals_like_globals=True)
    shadow = dict(prof, shadow=True)
    strat = st.one_of(st.tuples(gen_typed.script(prof)), st.tuples(gen_typed.script(prof)),
                      st.tuples(gen_typed.script(prof)), st.tuples(gen_typed.script(shadow)))
    runner.hyp_run(ctx, strat, body, ctx.share(total))

    def body2(case):
        check_merge(dd, case, acc)
        acc.case(case, nontrivial=False, classes=['merge-instance'])

    runner.hyp_run(ctx, merge_case(), body2, ctx.share(300 if ctx.quick else 3000), salt=4)


def finish(acc, tier):
    per = {}
    for k, v in acc.classes.items():
        if ':' in k:
            m, r = k.split(':', 1)
            per.setdefault(m, {})[r] = v
    acc.extra['rewrites_per_mutator'] = per
    missing = [n for g in LISTED.values() for n in g if per.get(n, {}).get('ok', 0) == 0]
    acc.extra['listed_mutators_without_evaluated_instance'] = missing


def replay(case, acc, ctx):
    dd = env.load()
    env.set_options(dd, ['in.smt2', 'out.smt2', '/bin/true'])
    if case.get('kind') == 'merge':
        check_merge(dd, case, acc)
    elif case.get('kind') == 'fpshort':
        check_fp_short(dd, acc)
    else:
        check_script(dd, case, acc, mutators_listed(dd))
