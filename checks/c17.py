"""C17 - rewrites documented as identities preserve sort and value."""
import itertools
import os

from hypothesis import strategies as st

from vlib import env, gen_typed, guard, model, refreader, runner, smteval

PROPERTY = 'C17'
LEVEL = 'exploration'
RULE = ('For exactly the mutators the property lists, Hypothesis-drawn well-sorted '
        'scripts (typed generator, evaluable fragment: Core/Ints/Reals/BV widths '
        '1-8/datatypes/UF/define-fun/let/quantifiers; shapes biased to what the '
        'filters accept: all constant notations, nested extensions, extract of '
        'zero_extend / constants, double negations, reflexive nand, bvcomp and ite '
        'forms, false equalities, selector of constructor, calls whose actuals '
        'mention names equal to formals, parallel lets) are rewritten at every term '
        'position the mutator accepts; original and replacement are evaluated by the '
        'independent evaluator under 16 assignments to all free symbols (corner '
        'values 0, 1, 2^w-1, sign bit included): same sort and same value.  Binary '
        'forms only where the statement says so.  BVMergeReducedBW is compared at '
        'script level on its own instance family; FPShortSort exhaustively over the '
        '(eb, sb) grid.  Shadowing lets are a separate class (own bucket).  '
        'The proposals for a node must not depend on whether filter() and mutations() alternate node by node (hierarchical) or filter() is asked about all nodes first (ddmin).  Real runs (ddmin, hierarchical, hybrid; -j 1 and 2) with the arity-independent identity rewrites plus two constant-changing rewrites enabled, on scripts whose definitions are applied in the assertions, against a command that accepts two thirds of all candidates: every accepted step made by an identity rewrite leaves sort and value of every asserted formula unchanged (8 assignments; keys run/...).  Non-trivial: an instance with >= 1 free variable for which a proposal was '
        'produced; distinct = (mutator, original term).')
ASSUMPTIONS = [
    'relative to the evaluator (validated against z3 by tools/validate_eval.py); Int quantifiers are interpreted over {-2..2} (the listed identities are domain-independent)',
    'division by zero and selectors applied to the wrong constructor are fixed total functions, the same on both sides',
]

LISTED = {
    'bv': ['BVNormalizeConstants', 'BVEvalExtend', 'BVExtractConstants', 'BVExtractZeroExtend', 'BvMergeExtend',
           'BVDoubleNegation', 'BVReflexiveNand', 'BVIteToBVComp', 'BVElimBVComp'],
    'boolean': ['BoolDoubleNegation', 'BoolDeMorgan', 'BoolEliminateFalseEquality', 'BoolXOREliminateBinary',
                'BoolNegateQuantifier', 'BoolEliminateImplication'],
    'arithmetic': ['ArithmeticNegateRelation'],
    'smtlib': ['InlineDefinedFuns', 'LetSubstitution'],
    'datatypes': ['RemoveDatatypeIdentity'],
}
BINARY_ONLY = {'BoolEliminateFalseEquality', 'BoolEliminateImplication', 'BVElimBVComp'}
NASSIGN = 16


def tup(x):
    if isinstance(x, list):
        return tuple(tup(y) for y in x)
    return x


def case_of(s):
    terms = []
    for path, t, scope in gen_typed.terms_with_scope(s):
        terms.append([list(path), {k: list(v) for k, v in scope.items()}])
    return dict(cmds=s.cmds, terms=terms, consts={k: list(v) for k, v in s.consts.items()},
                funs={k: [[list(a) for a in v[0]], list(v[1])] for k, v in s.funs.items()},
                defs={k: [[[n, list(so)] for n, so in v[0]], list(v[1]), v[2].plain] for k, v in s.defs.items()},
                dts={k: [[c, [[sel, list(so)] for sel, so in f]] for c, f in v] for k, v in s.dts.items()},
                shadow='shadowing-let' in s.features)


def contexts(case):
    """NASSIGN evaluation contexts (assignments to the free symbols)."""
    dts = {k: [(c, [(sel, tup(so)) for sel, so in f]) for c, f in v] for k, v in case['dts'].items()}
    base = smteval.Ctx(dts=dts)
    out = []
    for a in range(NASSIGN):
        consts = {}
        for name, so in case['consts'].items():
            consts[name] = (tup(so), smteval.default_value(tup(so), base, smteval.hashval(name, a)))
        out.append(smteval.Ctx(
            consts=consts,
            funs={k: ([tup(x) for x in v[0]], tup(v[1])) for k, v in case['funs'].items()},
            defs={k: ([(n, tup(so)) for n, so in v[0]], tup(v[1]), v[2]) for k, v in case['defs'].items()},
            dts=dts, salt=a))
    return out


def free_symbols(plain, names):
    return {t for t in model.preorder(plain) if isinstance(t, str) and t in names}


def compare(mname, orig, repl, scope, ctxs, acc, case, shadow):
    """Evaluate both sides under every assignment; record violations."""
    suffix = '/shadowing' if shadow else ''
    evaluated = 0
    for a, ctx in enumerate(ctxs):
        envv = {}
        try:
            for name, so in scope.items():
                envv[name] = (so, smteval.default_value(so, ctx, smteval.hashval('scope', name, a)))
            so1, v1 = smteval.ev(orig, ctx, envv)
        except smteval.EvalError:
            return 'skipped'
        except smteval.SortError as e:
            raise RuntimeError(f'generator/evaluator disagreement on the ORIGINAL term {model.render(orig)}: {e}')
        try:
            so2, v2 = smteval.ev(repl, ctx, envv)
        except smteval.EvalError:
            return 'skipped'
        except smteval.SortError as e:
            acc.violation(f'{mname}/sort{suffix}',
                          f'{mname}: {model.render(orig)}  -->  {model.render(repl)} is ill-sorted: {e}',
                          dict(case, focus=[mname, model.render(orig)]))
            return 'violation'
        if so1 != so2:
            acc.violation(f'{mname}/sort{suffix}',
                          f'{mname}: {model.render(orig)} : {so1}  -->  {model.render(repl)} : {so2}',
                          dict(case, focus=[mname, model.render(orig)]))
            return 'violation'
        evaluated += 1
        if v1 != v2:
            asg = {k: v[1] for k, v in list(ctx.consts.items())[:8]}
            acc.violation(f'{mname}/value{suffix}',
                          f'{mname}: {model.render(orig)} = {v1}  but  {model.render(repl)} = {v2} under {asg} '
                          f'(bound: { {k: v[1] for k, v in envv.items()} })',
                          dict(case, focus=[mname, model.render(orig)]))
            return 'violation'
    return 'ok'


def z3_equivalent(case, orig, repl, scope):
    """Secondary oracle (thorough tier): z3 must not find an assignment that
    distinguishes the two terms.  Returns 'unsat' | 'sat' | 'unknown'."""
    import subprocess
    if 'divisible' in model.render(orig) + model.render(repl):
        return 'unknown'
    lines = [model.render(c) for c in case['cmds']
             if c and c[0] in ('declare-datatype', 'declare-datatypes', 'declare-const', 'declare-fun', 'define-fun')]
    for n, so in scope.items():
        if n in case['consts']:
            return 'unknown'  # a formal that hides a global: cannot be declared twice
        sp = gen_typed.sort_plain(so)
        lines.append(f'(declare-const {n} {sp if isinstance(sp, str) else model.render(sp)})')
    lines.append(f'(assert (distinct {model.render(orig)} {model.render(repl)}))')
    lines.append('(check-sat)')
    try:
        p = subprocess.run(['z3', '-in', '-smt2', '-T:5'], input='\n'.join(lines).encode(), capture_output=True, timeout=30)
    except (FileNotFoundError, subprocess.TimeoutExpired):
        return 'unknown'
    out = p.stdout.decode()
    if 'error' in out:
        return 'unknown'
    if out.strip().startswith('unsat'):
        return 'unsat'
    if out.strip().startswith('sat'):
        return 'sat'
    return 'unknown'


def naive_substitution(mname, orig, case):
    """What binder-unaware, simultaneous, outermost-first structural
    substitution (the documented mechanism) yields; None if not applicable."""
    try:
        if mname == 'InlineDefinedFuns':
            name = orig if isinstance(orig, str) else orig[0]
            formals, _, body = case['defs'][name]
            actuals = [] if isinstance(orig, str) else orig[1:]
            if len(actuals) != len(formals):
                return None
            return model.subst_struct([body], [(f[0], a) for f, a in zip(formals, actuals)])[0]
        return None  # LetSubstitution proposes one variable at a time: several candidates
    except (KeyError, IndexError, TypeError):
        return None


def naive_let_candidates(orig):
    out = []
    try:
        for b in orig[1]:
            out.append(['let', orig[1], model.subst_struct([orig[2]], [(b[0], b[1])])[0]])
    except (IndexError, TypeError):
        pass
    return out


def mutators_listed(dd):
    out = []
    mods = dict(bv=dd.mutators_bv, boolean=dd.mutators_boolean, arithmetic=dd.mutators_arithmetic,
                smtlib=dd.mutators_smtlib, datatypes=dd.mutators_datatypes)
    for g, names in LISTED.items():
        for n in names:
            out.append((n, getattr(mods[g], n)()))
    return out


def check_script(dd, case, acc, muts, z3_budget=None):
    exprs = [model.to_node(dd, c) for c in case['cmds']]
    dd.smtlib.collect_information(exprs)
    ctxs = contexts(case)
    names = set(case['consts'])
    counts = {}
    nt = False
    for path, scope in case['terms']:
        node = model.get_path(exprs, tuple(path))
        scope = {k: tup(v) for k, v in scope.items()}
        for mname, m in muts:
            try:
                if not m.filter(node):
                    continue
                if mname in BINARY_ONLY and len(node) != 3:
                    continue
                if mname == 'ArithmeticNegateRelation' and len(node[1]) != 3:
                    continue
                with guard.cpu_limit(3.0):
                    props = list(m.mutations(node))
            except guard.CpuTimeout:
                acc.violation(f'{mname}/hang', f'{mname}.mutations({model.render(model.to_plain(node))}) did not '
                              f'return within 3 s CPU', dict(case, focus=[mname, model.render(model.to_plain(node))]))
                continue
            except Exception:  # noqa  (tolerated: no proposal)
                acc.count(f'raises/{mname}')
                continue
            orig = model.to_plain(node)
            for simp in props:
                if list(simp.substs) != [node.id] or simp.fresh_vars:
                    continue
                repl = simp.substs[node.id]
                if repl is None:
                    continue
                # a formal parameter that hides a global of the same name is
                # shadowing as well (its own class, see DESIGN.md C17)
                shadow = case['shadow'] or bool(set(scope) & names)
                if shadow and mname in ('InlineDefinedFuns', 'LetSubstitution'):
                    # the known root cause is *binder-unaware but otherwise
                    # correct* structural substitution: only a replacement that is
                    # exactly the simultaneous structural substitution belongs to
                    # that class; anything else is a different defect
                    rp = model.to_plain(repl)
                    if mname == 'LetSubstitution':
                        shadow = rp in naive_let_candidates(orig)
                    else:
                        shadow = rp == naive_substitution(mname, orig, case)
                r = compare(mname, orig, model.to_plain(repl), scope, ctxs, acc, case, shadow)
                counts[mname] = counts.get(mname, 0) + 1
                acc.count(f'{mname}:{r}')
                if z3_budget and z3_budget[0] > 0 and r == 'ok' and not shadow:
                    z3_budget[0] -= 1
                    z = z3_equivalent(case, orig, model.to_plain(repl), scope)
                    acc.count(f'z3-{z}')
                    if z == 'sat':
                        acc.violation(f'{mname}/value-z3', f'z3 distinguishes {model.render(orig)} and '
                                      f'{model.render(model.to_plain(repl))}', dict(case, focus=[mname, model.render(orig)]))
                if r == 'ok' and (free_symbols(orig, names) or free_symbols(orig, set(scope))):
                    nt = True
                    acc.nontrivial.add(runner.digest([mname, orig]))
    return nt, counts


def check_call_order(dd, case, acc):
    """ddmin asks filter() about every node first and calls mutations() afterwards; the
    hierarchical strategy alternates.  The proposals for a node must be the same either way."""
    exprs = [model.to_node(dd, c) for c in case['cmds']]
    dd.smtlib.collect_information(exprs)
    nodes_ = [model.get_path(exprs, tuple(path)) for path, _ in case['terms']]

    def props(m, n):
        try:
            with guard.cpu_limit(3.0):
                return [(sorted((k, model.to_plain(v) if v is not None else None) for k, v in p.substs.items()),
                         [model.to_plain(f) for f in p.fresh_vars]) for p in m.mutations(n)]
        except (Exception, guard.CpuTimeout):  # noqa
            return 'raises'

    def ok(m, n):
        try:
            return bool(m.filter(n))
        except Exception:  # noqa
            return False

    for (mname, m1), (_, m2) in zip(mutators_listed(dd), mutators_listed(dd)):
        alternating = {}
        for n in nodes_:
            if ok(m1, n):
                alternating[n.id] = props(m1, n)
        accepted = [n for n in nodes_ if ok(m2, n)]
        for n in accepted:
            got = props(m2, n)
            if n.id in alternating and got != alternating[n.id]:
                acc.violation(f'{mname}/depends-on-call-order',
                              f'{mname} on {model.render(model.to_plain(n))}: filter+mutations per node gives '
                              f'{str(alternating[n.id])[:200]}, filter on all nodes first and mutations afterwards gives {str(got)[:200]}',
                              dict(case, focus=[mname, model.render(model.to_plain(n))], kind='call-order'))
                break


# ------------------------------------------------------- BVMergeReducedBW

@st.composite
def merge_case(draw):
    k = draw(st.integers(1, 6))
    n = draw(st.integers(1, 5))
    m = draw(st.integers(1, 5))
    name = draw(st.sampled_from(['w', 'v7', 'x']))
    return dict(kind='merge', k=k, n=n, m=m, name=name)


def check_merge(dd, case, acc):
    k, n, m, w = case['k'], case['n'], case['m'], case['name']
    cmds = [['declare-const', '__' + w, ['_', 'BitVec', str(k)]],
            ['define-fun', '_' + w, [], ['_', 'BitVec', str(k + n)], [['_', 'zero_extend', str(n)], '__' + w]],
            ['define-fun', w, [], ['_', 'BitVec', str(k + n + m)], [['_', 'zero_extend', str(m)], '_' + w]],
            ['assert', ['=', w, w]]]
    exprs = [model.to_node(dd, c) for c in cmds]
    dd.smtlib.collect_information(exprs)
    mut = dd.mutators_bv.BVMergeReducedBW()
    node = exprs[2]
    try:
        if not mut.filter(node):
            acc.count('BVMergeReducedBW:filter-rejects-instance')
            return
        props = list(mut.mutations(node))
    except Exception as e:  # noqa
        acc.count('raises/BVMergeReducedBW')
        return
    for simp in props:
        new = model.to_plain(simp.substs[node.id])
        for val in {0, 1, (1 << k) - 1, 1 << (k - 1), (5 * k + 3) % (1 << k)}:
            ctx0 = smteval.Ctx(consts={'__' + w: (('BV', k), val)},
                               defs={'_' + w: ([], ('BV', k + n), cmds[1][4])})
            try:
                so1, v1 = smteval.ev(cmds[2][4], ctx0, {})
                if new[0] != 'define-fun' or new[1] != w or new[2] != []:
                    raise smteval.SortError(f'not a definition of {w}: {new}')
                decl = gen_typed.sort_from_plain(new[3])
                so2, v2 = smteval.ev(new[4], ctx0, {})
                if decl != so2:
                    raise smteval.SortError(f'declared {decl}, body {so2}')
            except smteval.SortError as e:
                acc.violation('BVMergeReducedBW/sort', f'{model.render(cmds[2])} --> {model.render(new)}: {e}', case)
                return
            if (so1, v1) != (so2, v2):
                acc.violation('BVMergeReducedBW/value',
                              f'{model.render(cmds[2])} --> {model.render(new)}: {v1} vs {v2} for __{w}={val}', case)
                return
        acc.count('BVMergeReducedBW:ok')
        acc.nontrivial.add(runner.digest(['merge', k, n, m]))


# ------------------------------------------------------------ FPShortSort

FP_TABLE = {(5, 11): 'Float16', (8, 24): 'Float32', (11, 53): 'Float64', (15, 113): 'Float128'}


def check_fp_short(dd, acc):
    mut = dd.mutators_fp.FPShortSort()
    n = 0
    for eb, sb in itertools.product(range(2, 20), list(range(2, 60)) + [112, 113, 114]):
        node = model.to_node(dd, ['_', 'FloatingPoint', str(eb), str(sb)])
        case = dict(kind='fpshort', eb=eb, sb=sb)
        n += 1
        try:
            props = list(mut.mutations(node)) if mut.filter(node) else []
        except Exception:  # noqa
            props = []
        want = FP_TABLE.get((eb, sb))
        got = [model.to_plain(p.substs[node.id]) for p in props]
        if any(g != want for g in got):
            acc.violation('FPShortSort/sort', f'(_ FloatingPoint {eb} {sb}) --> {got} (synonym: {want})', case)
        acc.case(case, nontrivial=bool(want), classes=['fpshort'])
    acc.add_extra('fp_grid_cells', n)


# ---------------------------------------------------------------- real runs

# identities whatever the arity of the term they are offered (the documented-binary ones and
# ArithmeticNegateRelation are judged in-process only, on their documented shapes)
RUN_IDENTITIES = ['InlineDefinedFuns', 'LetSubstitution', 'BVNormalizeConstants', 'BVEvalExtend', 'BVExtractConstants',
                  'BVExtractZeroExtend', 'BvMergeExtend', 'BVDoubleNegation', 'BoolDoubleNegation', 'BoolDeMorgan',
                  'RemoveDatatypeIdentity']
# rewrites that are NOT identities: they make the run change definitions and declarations
RUN_OTHERS = ['ArithmeticSimplifyConstant', 'BVSimplifyConstants']


def script_contexts(cmds):
    """Evaluation contexts for a whole script given as nested lists (raises EvalError for
    anything outside the fragment)."""
    dts, consts, funs, defs = {}, {}, {}, {}
    for c in cmds:
        if not isinstance(c, list) or not c or not isinstance(c[0], str):
            continue
        if c[0] == 'declare-datatype' and len(c) == 3:
            dts[c[1]] = c[2]
        elif c[0] == 'declare-datatypes' and len(c) == 3:
            for (n, _), body in zip(c[1], c[2]):
                dts[n] = body
    names = set(dts)

    def so(p):
        r = gen_typed.sort_from_plain(p, names)
        if r is None:
            raise smteval.EvalError(f'sort {p!r}')
        return r

    dts = {k: [(x[0], [(f[0], so(f[1])) for f in x[1:]]) for x in v] for k, v in dts.items()}
    for c in cmds:
        if not isinstance(c, list) or not c or not isinstance(c[0], str):
            continue
        if c[0] == 'declare-const' and len(c) == 3:
            consts[c[1]] = so(c[2])
        elif c[0] == 'declare-fun' and len(c) == 4:
            if c[2]:
                funs[c[1]] = ([so(x) for x in c[2]], so(c[3]))
            else:
                consts[c[1]] = so(c[3])
        elif c[0] == 'define-fun' and len(c) == 5:
            defs[c[1]] = ([(f[0], so(f[1])) for f in c[2]], so(c[3]), c[4])
        elif c[0] in ('declare-const', 'declare-fun', 'define-fun', 'define-fun-rec', 'define-funs-rec', 'define-sort',
                      'declare-sort'):
            raise smteval.EvalError('declaration outside the fragment: ' + model.render(c)[:80])
    base = smteval.Ctx(dts=dts)
    out = []
    for a in range(8):
        cs = {n: (s_, smteval.default_value(s_, base, smteval.hashval(n, a))) for n, s_ in consts.items()}
        out.append(smteval.Ctx(consts=cs, funs=funs, defs=defs, dts=dts, salt=a))
    return out


def script_values(cmds):
    """[(sort, value) of every asserted formula] per assignment."""
    res = []
    for ctx in script_contexts(cmds):
        res.append([smteval.ev(c[1], ctx, {}) for c in cmds if isinstance(c, list) and len(c) == 2 and c[0] == 'assert'])
    return res


@st.composite
def def_script(draw):
    """Definitions whose bodies hold constants and extension terms (so that accepted steps
    change the definitions), applied several times in the assertions."""
    w = draw(st.sampled_from([4, 8]))
    bvs = ['_', 'BitVec', str(w)]

    def bvc():
        v = draw(st.integers(0, (1 << w) - 1))
        return draw(st.sampled_from(['#b' + format(v, f'0{w}b'), '#x' + format(v, f'0{w // 4}x'), ['_', f'bv{v}', str(w)]]))

    def num():
        return str(draw(st.integers(0, 40)))

    k = draw(st.integers(1, w - 1))
    small = '#b' + format(draw(st.integers(0, (1 << (w - k)) - 1)), f'0{w - k}b')
    fbody = draw(st.sampled_from([
        ['bvadd', 'u', bvc()], ['bvand', 'u', [['_', 'zero_extend', str(k)], small]],
        ['bvor', ['bvnot', ['bvnot', 'u']], bvc()], ['ite', ['=', 'u', bvc()], bvc(), 'u'],
        ['bvxor', [['_', 'sign_extend', str(k)], small], 'u']]))
    gbody = draw(st.sampled_from([
        ['>', ['+', 'n', num()], 'x'], ['not', ['not', ['<', 'n', num()]]], ['and', ['>=', 'n', num()], 'p'],
        ['=', ['*', 'n', num()], 'y'], ['not', ['and', ['<', 'n', num()], ['not', 'p']]]]))
    cmds = [['set-logic', 'ALL'], ['declare-const', 'a', bvs], ['declare-const', 'b', bvs], ['declare-const', 'x', 'Int'],
            ['declare-const', 'y', 'Int'], ['declare-const', 'p', 'Bool'],
            ['define-fun', 'f', [['u', bvs]], bvs, fbody], ['define-fun', 'g', [['n', 'Int']], 'Bool', gbody],
            ['define-fun', 'h', [], 'Int', ['+', 'x', num()]]]
    pool = [['=', ['f', 'a'], ['f', 'b']], ['g', 'x'], ['g', ['+', 'y', num()]], ['not', ['g', 'h']],
            ['=', ['f', ['f', 'a']], bvc()], ['not', ['not', ['g', num()]]], ['=', ['f', bvc()], 'b'],
            ['let', [['t', ['f', 'a']]], ['=', 't', ['bvnot', 't']]]]
    for t in draw(st.lists(st.sampled_from(pool), min_size=3, max_size=5)):
        cmds.append(['assert', t])
    cmds.append(['check-sat'])
    return cmds


@st.composite
def run_cases(draw):
    from vlib import gen_run
    if draw(st.integers(0, 3)) > 0:
        text = model.render_list(draw(def_script())) + '\n'
    else:
        s = draw(gen_typed.script(dict(gen_typed.EVAL_PROFILE, max_defs=3, max_asserts=3, depth=2)))
        text = model.render_list(s.cmds) + '\n'
    # the command accepts two thirds of all candidates, pseudo-randomly by their tokens
    from vlib import spec as vspec
    salt = draw(st.integers(0, 10**6))
    k0 = vspec.mix(vspec.token_hash(vspec.tokens_of_text(text)), salt) % 3
    spec = dict(pred=['hash', salt, 3, [k0, (k0 + 1) % 3]], T=[0, 'sat\n', ''], F=[1, 'unsat\n', ''], noise=None, delay=None,
                fault=None, directive=False)
    return dict(kind='run', text=text, spec=spec, strategy=draw(st.sampled_from(['ddmin', 'hierarchical', 'hybrid'])),
                jobs=draw(st.sampled_from([1, 1, 2])))


def run_argv(dd):
    opt = {}
    for theory, (mod, ms) in dd.mutators.get_all_mutators().items():
        opt.update(ms)
    return ['--disable-all'] + ['--' + opt[c] for c in RUN_IDENTITIES + RUN_OTHERS if c in opt]


def check_run(dd, case, acc, wd):
    """A real run with the identity rewrites and a few others enabled: every accepted step that
    an identity rewrite made leaves the value of every asserted formula unchanged (the tables
    a mutator consults in a run are those of the input it is asked about)."""
    from vlib import e2e
    opts = dict(strategy=case['strategy'], jobs=case['jobs'], timeout=20, extra_argv=run_argv(dd))
    r = e2e.run_ddsmt(wd, case['text'], case['spec'], opts, mode='launcher',
                      plan=dict(keep_texts=True, stop_on_repeat=True, max_accepts=120), wall_limit=120)
    classes = ['run', f'run-{case["strategy"]}']
    if r.timed_out or r.after is None:
        acc.skip('run: wall limit or launcher crash')
        return False, classes
    texts = [case['text']] + [t for t in r.after.get('writes_text', [])]
    by = [None] + list(r.after.get('writes_by', []))
    judged = 0
    for i in range(1, min(len(texts), len(by))):
        if by[i] not in RUN_IDENTITIES or texts[i] is None or texts[i - 1] is None:
            continue
        try:
            before = refreader.read(texts[i - 1], keep_comments=False)
            after_ = refreader.read(texts[i], keep_comments=False)
            vb = script_values(before)
        except Exception:  # noqa  (a script that earlier, non-identity steps left outside the fragment)
            acc.count('run-step-not-evaluable')
            continue
        try:
            va = script_values(after_)
        except smteval.SortError as e:
            acc.violation(f'run/{by[i]}/sort', f'accepted step #{i} by {by[i]} in a real run makes the script ill-sorted: {e}; '
                          f'before={texts[i - 1][:300]!r} after={texts[i][:300]!r}', case)
            continue
        except Exception:  # noqa
            acc.count('run-step-not-evaluable')
            continue
        judged += 1
        acc.count(f'run-step:{by[i]}')
        if va != vb:
            acc.violation(f'run/{by[i]}/value', f'accepted step #{i} by {by[i]} in a real run ({case["strategy"]}, -j {case["jobs"]}) '
                          f'changes the value of an asserted formula; before={texts[i - 1][:400]!r} after={texts[i][:400]!r}', case)
    acc.add_extra('run_steps_judged', judged)
    return judged >= 1, classes


def runs(ctx, acc, dd):
    n = [0]

    def body(case):
        n[0] += 1
        nt, classes = check_run(dd, case, acc, os.path.join(ctx.workdir, f'run{n[0] % 3}'))
        acc.case(case, nontrivial=False, classes=classes)

    runner.hyp_run(ctx, run_cases(), body, ctx.share(320 if ctx.quick else 3000), salt=41)


def shard(ctx, acc):
    dd = env.load()
    env.set_options(dd, ['in.smt2', 'out.smt2', '/bin/true'])
    muts = mutators_listed(dd)
    if ctx.shard == 0:
        check_fp_short(dd, acc)
    total = 2500 if ctx.quick else 300000
    z3_budget = [0 if ctx.quick else 1500]

    def body(arg):
        s, = arg
        case = case_of(s)
        try:
            with guard.cpu_limit(60.0):
                nt, counts = check_script(dd, case, acc, muts, z3_budget)
                check_call_order(dd, case, acc)
        except guard.CpuTimeout:
            acc.skip('cpu-limit')
            return
        text = model.render_list(s.cmds)
        acc.case(dict(script=text), nontrivial=False, classes=['script'] + (['shadowing-profile'] if case['shadow'] else []) + [f for f in s.features if f in ('actual-mentions-formal-name', 'shadowing-let', 'defapp', 'let')],
                 sample=dict(script=text[:500], rewrites=counts))
        if nt and len(acc.samples) < acc.MAX_SAMPLES:
            acc.samples.append(dict(script=text[:500], rewrites=counts))

    prof = dict(gen_typed.EVAL_PROFILE, formals_like_globals=True)
    shadow = dict(prof, shadow=True)
    strat = st.one_of(st.tuples(gen_typed.script(prof)), st.tuples(gen_typed.script(prof)),
                      st.tuples(gen_typed.script(prof)), st.tuples(gen_typed.script(shadow)))
    runner.hyp_run(ctx, strat, body, ctx.share(total))

    def body2(case):
        check_merge(dd, case, acc)
        acc.case(case, nontrivial=False, classes=['merge-instance'])

    runner.hyp_run(ctx, merge_case(), body2, ctx.share(300 if ctx.quick else 3000), salt=4)
    runs(ctx, acc, dd)


def finish(acc, tier):
    per = {}
    for k, v in acc.classes.items():
        if ':' in k:
            m, r = k.split(':', 1)
            per.setdefault(m, {})[r] = v
    acc.extra['rewrites_per_mutator'] = per
    missing = [n for g in LISTED.values() for n in g if per.get(n, {}).get('ok', 0) == 0]
    acc.extra['listed_mutators_without_evaluated_instance'] = missing


def replay(case, acc, ctx):
    dd = env.load()
    env.set_options(dd, ['in.smt2', 'out.smt2', '/bin/true'])
    if case.get('kind') == 'merge':
        check_merge(dd, case, acc)
    elif case.get('kind') == 'call-order':
        check_call_order(dd, case, acc)
    elif case.get('kind') == 'run':
        check_run(dd, case, acc, os.path.join(ctx.workdir, 'replay'))
    elif case.get('kind') == 'fpshort':
        check_fp_short(dd, acc)
    else:
        check_script(dd, case, acc, mutators_listed(dd))
