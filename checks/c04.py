"""C04 - every run completes: no internal failure on any input, meaningful exit
status."""
import os
import shutil
import traceback

from hypothesis import strategies as st

from vlib import e2e, env, gen_lex, gen_run, gen_sexpr, guard, model, refreader, runner
from vlib import spec as vspec

PROPERTY = 'C04'
LEVEL = 'exploration'
RULE = ('(a) in-process, bucketed by escape site: texts from G-lex (balanced, and '
        'unbalanced / truncated / with stray quotes), damaged scripts (delete / '
        'duplicate / swap children, () or a leaf for a subtree, dropped arguments, '
        'unwrapped binders) and intermediate inputs (0-3 randomly chosen proposals '
        'applied first) go through what ddSMT executes in its main process: '
        'parse_smtlib, auto_detect_theories, collect_information, and for every '
        'mutator of ddmin_passes() a TaskGenerator iterated at granularities n, n/2, '
        '..., 1.  Any exception there aborts a run and is a violation; exceptions '
        'inside hierarchical mutator calls are tolerated as the statement says.  '
        '(b) black box through bin/ddsmt: damaged inputs x three strategies x '
        'hash-class specs: no "Traceback (most recent call last)" on stderr and exit '
        'status 0; a mutator made to raise on chosen nodes (launcher) must not change '
        'that; usage errors (missing input, directory as input, no command, missing / '
        'non-executable command, match string absent from the golden output, golden '
        'run timing out with a match string, SIGINT during minimisation) must give a '
        'diagnostic, no traceback and a non-zero status.  Non-trivial: the input has '
        'a node with an arity no well-formed script has or is unbalanced (a) / the run '
        '[thorough tier adds (c): an atheris/libFuzzer byte fuzzer with a token-level '
        'decoder on the same pipeline, 30 000 executions per shard] '
        'executed >= 5 tests or is a usage error (b); distinct = distinct case.')
ASSUMPTIONS = [
    'an exception is a violation exactly when it escapes into the main process\'s control flow',
    'a hang (> 5 s CPU for < 300 nodes) in these main-process paths is reported as hang/<site>',
]

CPU = 5.0


def innermost_frame(tb, repo):
    """(function, source line) of the innermost frame inside ddsmt that is not a
    generic Node accessor."""
    frames = traceback.extract_tb(tb)
    best = None
    for f in frames:
        if '/ddsmt/' in f.filename and f.name not in ('__getitem__', '__len__'):
            best = f
    if best is None:
        best = frames[-1]
    mod = os.path.basename(best.filename)[:-3]
    return f'{mod}.{best.name}', (best.line or '').strip()[:90]


def main_process_pipeline(dd, text, acc, case, exprs=None):
    """Run the main-process code paths on ``text``; returns the parsed list."""
    import sys

    def V(site, e):
        fn, line = innermost_frame(sys.exc_info()[2], env.REPO)
        acc.violation(f'{site}/{type(e).__name__}@{fn}:{line}',
                      f'{type(e).__name__}: {e} (input {text[:300]!r})', case)

    try:
        with guard.cpu_limit(CPU):
            if exprs is None:
                try:
                    exprs = list(dd.nodeio.parse_smtlib(text))
                except Exception as e:  # noqa
                    V('parse', e)
                    return None
            env.set_options(dd, ['in.smt2', 'out.smt2', '/bin/true'])
            try:
                dd.mutators.auto_detect_theories(exprs)
            except Exception as e:  # noqa
                V('auto_detect', e)
            env.set_options(dd, ['in.smt2', 'out.smt2', '/bin/true'])
            try:
                dd.smtlib.collect_information(exprs)
            except Exception as e:  # noqa
                V('collect_information', e)
                return exprs
            try:
                dd.nodes.count_exprs(exprs)
                dd.nodeio.write_smtlib_to_str(exprs)
            except Exception as e:  # noqa
                V('render', e)
            if dd.nodes.count_nodes(exprs) > 400:
                # task generation enumerates every proposal at every granularity: only for
                # small inputs is the CPU budget a meaningful hang criterion
                acc.count('ddmin-task-generation-skipped(large input)')
                return exprs
            passes = dd.strategy_ddmin.ddmin_passes()
            for stage, depth in ((passes[0], 1), (passes[1], None)):
                for m in stage:
                    try:
                        tg = dd.strategy_ddmin.TaskGenerator(exprs, None, m, depth)
                        gran = tg.gran
                        while gran > 0:
                            for _task in tg:
                                pass
                            gran = gran // 2
                            tg = dd.strategy_ddmin.TaskGenerator(exprs, gran, m, depth)
                    except Exception as e:  # noqa
                        V('TaskGenerator', e)
    except guard.CpuTimeout:
        acc.violation('hang/main-process-path', f'more than {CPU}s CPU on {text[:300]!r}', case)
    except MemoryError:
        acc.violation('hang/main-process-path', f'memory exhausted on {text[:300]!r}', case)
    return exprs


def random_steps(dd, exprs, picks):
    """Apply up to len(picks) proposals chosen by the drawn numbers (guarded as
    hierarchical does); returns the new list."""
    muts = [c() for _, (mod, c, _, _) in sorted(env.all_mutator_classes(dd).items())]
    for pick in picks:
        try:
            dd.smtlib.collect_information(exprs)
        except Exception:  # noqa
            return exprs
        nodes_ = list(dd.nodes.bfs(exprs))
        if not nodes_:
            return exprs
        props = []
        node = nodes_[pick % len(nodes_)]
        for m in muts:
            try:
                if hasattr(m, 'filter') and not m.filter(node):
                    continue
                if hasattr(m, 'mutations'):
                    props.extend(m.mutations(node))
                if hasattr(m, 'global_mutations'):
                    props.extend(m.global_mutations(node, exprs))
            except Exception:  # noqa  (tolerated)
                pass
        if not props:
            continue
        simp = props[(pick // 7) % len(props)]
        try:
            res = dd.mutator_utils.apply_simp(exprs, simp)
            if res is not None:
                exprs = dd.nodes.reduplicate(res)
        except Exception:  # noqa  (C15's business)
            pass
    return exprs


def break_text(draw, text):
    ops = draw(st.lists(st.sampled_from(['drop-paren', 'add-open', 'add-close', 'truncate', 'quote', 'bar']),
                        min_size=1, max_size=3))
    for op in ops:
        if not text:
            break
        i = draw(st.integers(0, len(text) - 1))
        if op == 'drop-paren':
            j = max(text.find('(', i), text.find(')', i))
            if j >= 0:
                text = text[:j] + text[j + 1:]
        elif op == 'add-open':
            text = text[:i] + '(' + text[i:]
        elif op == 'add-close':
            text = text[:i] + ')' + text[i:]
        elif op == 'truncate':
            text = text[:i]
        elif op == 'quote':
            text = text[:i] + '"' + text[i:]
        else:
            text = text[:i] + '|' + text[i:]
    return text, ops


@st.composite
def inproc_case(draw):
    kind = draw(st.sampled_from(['glex', 'glex-broken', 'damaged', 'damaged', 'damaged-steps', 'script-steps', 'deep']))
    if kind == 'deep':
        # deeply nested terms (solvers produce them): nothing in the main process may recurse on the depth
        depth = draw(st.sampled_from([150, 400, 1200, 3000]))
        op = draw(st.sampled_from(['not', 'bvnot', '-', 'f']))
        inner = draw(st.sampled_from(['x', 'true', '(= x 0)']))
        term = ('(' + op + ' ') * depth + inner + ')' * depth
        wrap = draw(st.sampled_from(['(assert %s)', '(define-fun g () Bool %s)', '(assert (let ((l %s)) l))', '%s',
                                     '(declare-const y %s extra)', '(declare-fun y %s)', '(define-fun g %s)',
                                     '(declare-datatype D %s)', '(assert (forall ((q Int)) %s))']))
        text = '(declare-const x Int)\n' + (wrap % term) + '\n(check-sat)\n'
        return dict(kind=kind, text=text, ops=[f'depth-{depth}'], picks=[])
    if kind.startswith('glex'):
        text, _, _ = gen_lex.render(draw(gen_lex.top(max_items=4, max_leaves=20)))
        ops = []
        if kind == 'glex-broken':
            text, ops = break_text(draw, text)
        return dict(kind=kind, text=text, ops=ops, picks=[])
    base = gen_run.script(1, 4).map(lambda t: refreader.read(t, keep_comments=False))
    if kind == 'script-steps':
        trees, ops = draw(base), []
    else:
        trees, ops = draw(gen_sexpr.damaged(base))
    picks = draw(st.lists(st.integers(0, 10**6), min_size=1, max_size=3)) if kind.endswith('steps') else []
    return dict(kind=kind, text=model.render_list(trees) + '\n', ops=ops, picks=picks)


def run_inproc(dd, case, acc):
    exprs = main_process_pipeline(dd, case['text'], acc, case)
    if exprs is not None and case['picks']:
        try:
            with guard.cpu_limit(CPU):
                exprs2 = random_steps(dd, exprs, case['picks'])
        except guard.CpuTimeout:
            acc.skip('hang while applying random steps (C03)')
            return
        text2 = dd.nodeio.write_smtlib_to_str(exprs2)
        main_process_pipeline(dd, text2, acc, dict(case, derived_text=text2), exprs=exprs2)


# ------------------------------------------------------------------ (b) e2e

USAGE = ['missing-input', 'directory-input', 'no-command', 'missing-command', 'non-executable-command',
         'match-out-absent', 'match-err-absent', 'golden-timeout-with-match', 'sigint']


@st.composite
def e2e_case(draw):
    kind = draw(st.sampled_from(['damaged-run', 'damaged-run', 'blackbox-run', 'broken-mutator', 'broken-apply', 'usage',
                                 'deep-run']))
    base = gen_run.script(1, 4).map(lambda t: refreader.read(t, keep_comments=False))
    trees, ops = draw(gen_sexpr.damaged(base, 3))
    text = model.render_list(trees) + '\n'
    if kind == 'deep-run':
        depth = draw(st.sampled_from([300, 350, 500]))
        op = draw(st.sampled_from(['not', 'bvnot', '-']))
        wrap = draw(st.sampled_from(['(assert %s)', '(assert (let ((l %s)) l))', '(define-fun g () Bool %s)']))
        text = '(declare-const x Bool)\n' + (wrap % (('(' + op + ' ') * depth + 'x' + ')' * depth)) + '\n(check-sat)\n'
        ops = [f'depth-{depth}']
        kind = 'damaged-run'
    if draw(st.integers(0, 5)) == 0:
        text, _ = break_text(draw, text)
    if draw(st.booleans()):
        # non-ASCII text (legal in literals, quoted symbols and comments) travels to the workers
        text = '; \u00fcnic\u00f6d\u00e9 \u2713\n' + text + '(assert (= "\u00fc\u00f1 \U0001f600" |caf\u00e9 \u65e5\u672c|))\n'
        ops = list(ops) + ['non-ascii']
    sp = draw(gen_run.spec_for(text, kind=draw(st.sampled_from(['hash', 'mixed', 'monotone']))))
    # 'bal' is not monotone under paren damage; keep specs simple
    opts = dict(strategy=draw(st.sampled_from(['ddmin', 'hierarchical', 'hybrid'])),
                jobs=draw(st.sampled_from([1, 2, 3])), timeout=30)
    c = dict(kind=kind, text=text, spec=sp, opts=opts, ops=ops)
    if kind == 'usage':
        c['usage'] = draw(st.sampled_from(USAGE))
        c['after_tests'] = draw(st.integers(2, 40))
    if kind == 'broken-apply':
        c['break_apply'] = dict(mod=draw(st.sampled_from([2, 3, 5])), salt=draw(st.integers(0, 99)))
        c['opts']['jobs'] = draw(st.sampled_from([1, 2, 3]))
    if kind == 'broken-mutator':
        names = ['EraseNode', 'Constants', 'ReplaceByChild', 'SimplifySymbolNames', 'BVNormalizeConstants',
                 'ArithmeticSimplifyConstant', 'LetSubstitution', 'EliminateVariable', 'MergeWithChildren']
        c['break'] = dict(cls=draw(st.sampled_from(names)), method=draw(st.sampled_from(['filter', 'mutations', 'global_mutations'])),
                          mod=draw(st.sampled_from([1, 2, 3])), salt=draw(st.integers(0, 99)))
        c['opts']['strategy'] = draw(st.sampled_from(['hierarchical', 'hybrid', 'ddmin']))
    return c


def no_traceback(r, acc, case, what):
    if 'Traceback (most recent call last)' in r.stderr or 'Traceback (most recent call last)' in r.stdout:
        i = r.stderr.find('Traceback (most recent call last)')
        tail = r.stderr[i:]
        lines = [ln for ln in tail.strip().split('\n') if ln.strip()]
        last = lines[-1][:80] if lines else ''
        loc = [ln.strip() for ln in lines if ln.strip().startswith('File') and '/ddsmt/' in ln]
        where = loc[-1].split(', in ')[-1] if loc else '?'
        acc.violation(f'traceback/{what}/{last.split(":")[0]}@{where}',
                      f'uncaught exception in a real run ({what}): {tail[-700:]}', case)
        return False
    return True


def run_e2e(case, acc, wd):
    kind = case['kind']
    classes = ['e2e-' + kind]
    if kind == 'damaged-run':
        deep = any(o.startswith('depth-') for o in case.get('ops', []))
        r = e2e.run_ddsmt(wd, case['text'], case['spec'], case['opts'], mode='launcher',
                          plan=dict(stop_on_repeat=True, max_accepts=(12 if deep else 150)), wall_limit=120)
        classes.append(f'strategy-{case["opts"]["strategy"]}')
        if deep:
            classes.append('deeply-nested-input')
        if r.timed_out or r.after is None:
            acc.skip('e2e wall limit')
            return False, classes
        ok = no_traceback(r, acc, case, case['opts']['strategy'])
        cut = r.after.get('repeat') or r.after.get('too_many_accepts')
        if ok and not cut and r.after['rc'] != 0:
            acc.violation('status/normal-run-nonzero', f'status {r.after["rc"]} without a traceback: {r.stdout[-200:]!r} {r.stderr[-300:]!r}', case)
        return len(r.log) >= 5, classes
    if kind == 'blackbox-run':
        # the executable itself: status 0 exactly when minimisation ran to completion
        # two runs in three with a cross-check command that accepts everything; its command line
        # (one argument, split at white space) may hold several blanks, tabs and quote characters
        import zlib
        cc = None
        if zlib.crc32(case['text'].encode('utf-8', 'replace')) % 3:
            cc = dict(pred=['true'], T=[0, 'ok\n', ''], F=[0, 'ok\n', ''], noise=None, delay=None, fault=None, directive=False)
            classes.append('with-cross-check')
        r = e2e.run_ddsmt(wd, case['text'], case['spec'], case['opts'], mode='blackbox', wall_limit=90, spec_cc=cc)
        classes.append(f'strategy-{case["opts"]["strategy"]}')
        if r.timed_out:
            acc.skip('e2e wall limit (cycling run, see C03)')
            return False, classes
        ok = no_traceback(r, acc, case, case['opts']['strategy'])
        if ok and r.exit != 0:
            acc.violation('status/completed-run-nonzero', f'bin/ddsmt exited with {r.exit} after a run that completed: '
                          f'{r.stdout[-200:]!r} {r.stderr[-300:]!r}', case)
        if ok and r.exit == 0 and not r.completed:
            acc.violation('status/zero-without-completion', f'exit status 0 but no completion message: {r.stderr[-300:]!r}', case)
        return len(r.log) >= 5, classes
    if kind == 'broken-apply':
        # a failure while a candidate is built / checked (in the workers) costs that candidate only
        r = e2e.run_ddsmt(wd, case['text'], case['spec'], case['opts'], mode='launcher',
                          plan=dict(stop_on_repeat=True, max_accepts=150, break_apply=case['break_apply']), wall_limit=120)
        classes.append(f'strategy-{case["opts"]["strategy"]}')
        if r.timed_out or r.after is None:
            acc.skip('e2e wall limit')
            return False, classes
        injected = 'injected apply failure' in r.stderr
        if injected:
            classes.append('injected-apply-failure-hit')
        ok = no_traceback(r, acc, case, 'injected-apply-failure-not-contained' if injected else case['opts']['strategy'])
        cut = r.after.get('repeat') or r.after.get('too_many_accepts')
        if ok and not cut and r.after['rc'] != 0:
            acc.violation('status/injected-apply-failure-nonzero', f'status {r.after["rc"]}: {r.stderr[-300:]!r}', case)
        return injected, classes
    if kind == 'broken-mutator':
        r = e2e.run_ddsmt(wd, case['text'], case['spec'], case['opts'], mode='launcher',
                          plan=dict(stop_on_repeat=True, max_accepts=150, break_mutator=case['break']), wall_limit=120)
        classes.append(f'strategy-{case["opts"]["strategy"]}')
        if r.timed_out or r.after is None:
            acc.skip('e2e wall limit')
            return False, classes
        injected = 'injected mutator failure' in r.stderr
        if injected:
            classes.append('injected-failure-hit')
        ok = no_traceback(r, acc, case, 'injected-failure-not-contained' if injected else case['opts']['strategy'])
        cut = r.after.get('repeat') or r.after.get('too_many_accepts')
        if ok and not cut and r.after['rc'] != 0:
            acc.violation('status/injected-failure-nonzero', f'status {r.after["rc"]}: {r.stderr[-300:]!r}', case)
        return injected, classes
    # ---- usage errors, black box
    u = case['usage']
    classes.append('usage-' + u)
    os.makedirs(wd, exist_ok=True)
    infile = os.path.join(wd, 'input.smt2')
    outfile = os.path.join(wd, 'output.smt2')
    with open(infile, 'w') as f:
        f.write(case['text'])
    spf = vspec.write_spec(case['spec'], os.path.join(wd, 'main.spec'))
    log = os.path.join(wd, 'cmd.log')
    cmd = vspec.cmdline(spf, log)
    argv_opts = ['--strategy', case['opts']['strategy'], '--timeout', '30']
    import subprocess
    full = None
    if u == 'missing-input':
        full = argv_opts + [os.path.join(wd, 'nope.smt2'), outfile] + cmd
    elif u == 'directory-input':
        full = argv_opts + [wd, outfile] + cmd
    elif u == 'no-command':
        full = argv_opts + [infile, outfile]
    elif u == 'missing-command':
        full = argv_opts + [infile, outfile, os.path.join(wd, 'no-such-binary'), '--x']
    elif u == 'non-executable-command':
        ne = os.path.join(wd, 'plain.txt')
        with open(ne, 'w') as f:
            f.write('not executable\n')
        full = argv_opts + [infile, outfile, ne]
    if full is not None:
        p = subprocess.run([e2e.PY, os.path.join(e2e.REPO, 'bin', 'ddsmt')] + full, capture_output=True,
                           timeout=120, cwd=wd, env=dict(os.environ, TMPDIR=wd, PYTHONDONTWRITEBYTECODE='1'))
        out, err = p.stdout.decode('utf-8', 'replace'), p.stderr.decode('utf-8', 'replace')
        if 'Traceback (most recent call last)' in err + out:
            acc.violation(f'traceback/usage-{u}', (err + out)[-600:], case)
        if p.returncode == 0:
            acc.violation(f'status/usage-{u}', f'exit status 0 for usage error {u}; stdout={out[-200:]!r}', case)
        diag = [ln for ln in (out + err).split('\n') if 'rror' in ln or 'usage' in ln.lower()]
        if not diag:
            acc.violation(f'diagnostic/usage-{u}', f'no diagnostic line: stdout={out[-200:]!r} stderr={err[-200:]!r}', case)
        if os.path.exists(outfile):
            acc.violation(f'output-written/usage-{u}', 'an output file was written', case)
        return True, classes
    o = dict(case['opts'])
    sp = dict(case['spec'])
    if u in ('match-out-absent', 'match-err-absent'):
        o['match_out' if 'out' in u else 'match_err'] = 'ZZZ-never-printed'
        r = e2e.run_ddsmt(wd, case['text'], sp, o, mode='blackbox', wall_limit=60)
    elif u == 'golden-timeout-with-match':
        th = vspec.token_hash(vspec.tokens_of_text(case['text']))
        sp['fault'] = [3, 1, {'0': 's'}]
        o['timeout'] = 0.3
        o['match_out'] = 'sat'
        r = e2e.run_ddsmt(wd, case['text'], sp, o, mode='blackbox', wall_limit=60)
    else:  # sigint
        r = e2e.run_ddsmt(wd, case['text'], sp, o, mode='blackbox', sigint_after_tests=case['after_tests'], wall_limit=60)
        if not getattr(r, 'sigint_sent', False):
            acc.skip('run finished before the signal')
            return False, classes
        if '[ddsmt] interrupted' not in r.stdout:
            if getattr(r, 'completed', False) and not r.timed_out:
                # Minimisation was over (its closing messages are there) when the signal took effect:
                # either CPython discarded the KeyboardInterrupt inside a finalizer and the run went on to
                # its normal end, or the signal hit the interpreter while it was shutting down (status -2, or
                # a KeyboardInterrupt trace from an exit handler).  Nothing of ddSMT's was interrupted; the
                # case says nothing about the diagnostic or the status of an interrupted run.  (About one in
                # a thousand signalled runs; a tree on which this is the rule is reported by C06.)
                acc.skip('sigint took effect after minimisation had finished')
                return False, classes
            acc.violation('diagnostic/usage-sigint', f'stdout={r.stdout[-200:]!r} stderr={r.stderr[-300:]!r}', case)
    if r.timed_out:
        acc.violation(f'hang/usage-{u}', 'ddSMT did not stop within 60 s', case)
        return True, classes
    no_traceback(r, acc, case, f'usage-{u}')
    if r.exit == 0:
        acc.violation(f'status/usage-{u}', f'exit status 0 for {u}; stdout={r.stdout[-200:]!r}', case)
    return True, classes


def shard(ctx, acc):
    dd = env.load()
    guard.limit_memory(4)
    total = 3000 if ctx.quick else 80000

    def body(case):
        run_inproc(dd, case, acc)
        nt = case['kind'] != 'glex' or bool(case['ops'])
        acc.case(case, nontrivial=nt, classes=['inproc', 'inproc-' + case['kind']] + ['op-' + o for o in case['ops']],
                 sample=dict(kind=case['kind'], text=case['text'][:300]))

    runner.hyp_run(ctx, inproc_case(), body, ctx.share(total))

    n = [0]
    total2 = 96 if ctx.quick else 2000

    deep_runs = [0]
    deep_budget = 1 if ctx.quick else 8

    def body2(case):
        n[0] += 1
        if any(o.startswith('depth-') for o in case.get('ops', [])):
            deep_runs[0] += 1
            if deep_runs[0] > deep_budget:  # these take tens of seconds each
                acc.skip('deep-run budget')
                return
        wd = os.path.join(ctx.workdir, f'e2e{n[0]}')
        nt, classes = run_e2e(case, acc, wd)
        shutil.rmtree(wd, ignore_errors=True)
        acc.case(case, nontrivial=nt, classes=classes,
                 sample=dict(kind=case['kind'], usage=case.get('usage'), opts=case['opts'], text=case['text'][:200]))

    runner.hyp_run(ctx, e2e_case(), body2, ctx.share(total2), salt=3)
    if not ctx.quick:
        fuzz(ctx, acc, dd, 30000)


def fuzz(ctx, acc, dd, runs):
    """(c) coverage-guided byte fuzzing (atheris) of the same main-process
    pipeline; crashing inputs are re-judged by main_process_pipeline so that
    bucket keys and replays are this check's own."""
    import subprocess
    tool = os.path.join(env.VERIF, 'tools', 'fuzz_c04.py')
    if not os.path.exists('/opt/veriftools/pyvenv/bin/python'):
        acc.count('atheris-unavailable')
        return
    art = os.path.join(ctx.workdir, 'fuzz')
    os.makedirs(art, exist_ok=True)
    done = 0
    for round_ in range(40):
        if done >= runs:
            break
        p = subprocess.run([tool, f'-runs={runs - done}', '-max_len=160', f'-seed={1 + (ctx.hseed(round_) % 2**31)}',
                            f'-artifact_prefix={art}/', os.path.join(art, 'corpus')],
                           capture_output=True, env=dict(os.environ, VERIF_REPO=env.REPO), timeout=3600,
                           cwd=art, preexec_fn=lambda: os.makedirs(os.path.join(art, 'corpus'), exist_ok=True))
        err = p.stderr.decode('utf-8', 'replace')
        import re as _re
        m = _re.findall(r'#(\d+)\s', err)
        done += int(m[-1]) if m else runs
        crashes = [f for f in os.listdir(art) if f.startswith('crash-')]
        if 'ModuleNotFoundError' in err or 'ImportError' in err:
            acc.count('atheris-unavailable')
            return
        if not crashes:
            break
        for c in crashes:
            text = subprocess.run([tool, '--decode', os.path.join(art, c)], capture_output=True).stdout.decode('latin-1')
            case = dict(kind='fuzz', text=text, ops=[], picks=[])
            before = len(acc.violations)
            main_process_pipeline(dd, text, acc, case)
            if len(acc.violations) == before and not any(v['case'].get('text') == text for v in acc.violations.values()):
                acc.count('fuzz-crash-not-reproduced-in-process')
            os.unlink(os.path.join(art, c))
    acc.add_extra('fuzz_executions', done)


def replay(case, acc, ctx):
    if case.get('kind') in ('damaged-run', 'blackbox-run', 'broken-mutator', 'broken-apply', 'usage'):
        run_e2e(case, acc, os.path.join(ctx.workdir, 'replay'))
    else:
        guard.limit_memory(4)
        run_inproc(env.load(), case, acc)
