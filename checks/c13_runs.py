"""C13 (b): traced real runs - the list handed to every TaskGenerator /
Producer (and every content written) has pairwise distinct node ids."""
import os
import shutil

from hypothesis import strategies as st

from vlib import e2e, gen_run, runner


@st.composite
def cases(draw):
    c = draw(gen_run.run_case(strategies=('hierarchical', 'hybrid', 'ddmin'), jobs=(1, 2), formats=('default', ),
                              with_cc=False, with_delay=False, comparisons=False, max_asserts=5,
                              kinds=['hash', 'hash', 'mixed']))
    # profile favouring the simplifications that insert one object at several positions
    mode = draw(st.sampled_from(['all', 'sharing-only', 'sharing-only']))
    if mode == 'sharing-only':
        c['opts']['extra_argv'] = ['--disable-all', '--eliminate-variables', '--let-substitution', '--inline-functions',
                                   '--constants', '--replace-by-variable', '--substitute-children', '--erase-node',
                                   '--simplify-symbol-names', '--arith-constants', '--bv-simp-constants']
    c['kind'] = 'run'
    return c


def run_case(case, acc, wd):
    r = e2e.run_ddsmt(wd, case['text'], case['spec'], case['opts'], mode='launcher',
                      plan=dict(trace=True, stop_on_repeat=True, max_accepts=200), wall_limit=120)
    classes = ['run', f'strategy-{case["opts"]["strategy"]}']
    if r.timed_out or r.after is None:
        acc.skip('run wall limit')
        return False, classes
    shared_cands = {e['cand'] for e in r.trace if e['e'] == 'A' and e.get('shared')}
    nt = False
    for e in r.trace:
        if e['e'] == 'G' and not e['ids_distinct']:
            acc.violation(f'run/{e["kind"]}', f'{e["kind"]} for {e["mutators"][:3]} was built from a list in which '
                          f'one node id occurs at several positions', case)
        if e['e'] == 'Wb':
            # (the content written by ddmin in the middle of a round may still
            # share nodes; the statement is about the inputs from which a new
            # round is generated, i.e. the G events)
            if e['cand'] in shared_cands:
                nt = True
    if nt:
        classes.append('accepted-step-inserted-one-object-twice')
    acc.add_extra('generator_constructions_checked', len([e for e in r.trace if e['e'] == 'G']))
    return nt, classes


def shard(ctx, acc):
    total = 64 if ctx.quick else 1500
    n = [0]

    def body(case):
        n[0] += 1
        wd = os.path.join(ctx.workdir, f'run{n[0]}')
        nt, classes = run_case(case, acc, wd)
        shutil.rmtree(wd, ignore_errors=True)
        acc.case(case, nontrivial=nt, classes=classes,
                 sample=dict(kind='run', opts=case['opts'], input=case['text'][:300]))

    runner.hyp_run(ctx, cases(), body, ctx.share(total), salt=21)


def replay(case, acc, ctx):
    run_case(case, acc, os.path.join(ctx.workdir, 'replay'))
