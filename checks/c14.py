"""C14 - exactly the enabled mutators are used."""
import itertools

from hypothesis import strategies as st

from vlib import env, runner

PROPERTY = 'C14'
LEVEL = 'exploration'
RULE = ('Option sequences over --<mutator>/--no-<mutator>, --<group>/--no-<group>, '
        '--disable-all: all single options and all ordered pairs exhaustively (each '
        'with two theory-presence vectors chosen by index), plus Hypothesis-drawn '
        'sequences up to length 8 x drawn presence vectors.  Model: independent fold '
        'over the sequence; auto-detection may switch off a group only if its flag '
        'was never set and the input declares nothing of the theory.  Verdict: '
        'cmdline_enabled - may_be_auto_disabled <= observed <= cmdline_enabled for '
        'the last hierarchical pass, and the same minus BinaryReduction for the '
        'union of the ddmin passes; no pass holds a disabled mutator.  Non-trivial: '
        'the sequence changes at least one mutator\'s state or a group flag, or a '
        'group is auto-disabled; distinct = (sequence, presence vector).  Plus traced real '
        'runs with drawn mutator subsets: the classes handed to every Producer / '
        'TaskGenerator lie within the same bounds.')
ASSUMPTIONS = [
    'inputs declare a theory unambiguously (declare-const / declare-fun with that return sort / declare-datatype(s)) or do not mention its sorts at all',
    'the registry get_all_mutators() is taken as the list of mutators, their option names and their groups',
]

THEORY_DECLS = {
    'arithmetic': ['(declare-const ai Int)', '(declare-fun ar (Bool) Real)'],
    'bv': ['(declare-const bv1 (_ BitVec 8))', '(declare-fun bvf () (_ BitVec 3))'],
    'datatypes': ['(declare-datatype D ((c1) (c2 (s1 Bool))))',
                  '(declare-datatypes ((E 0)) (((e1))))'],
    'fp': ['(declare-const fp1 (_ FloatingPoint 5 11))', '(declare-const rm RoundingMode)',
           '(declare-fun fpf () Float32)'],
    'strings': ['(declare-const s1 String)', '(declare-fun sq () (Seq Bool))'],
}
AUTO = sorted(THEORY_DECLS)


def registry(dd):
    groups = {}
    for g, (mod, muts) in dd.mutators.get_all_mutators().items():
        groups[g] = dict(muts)  # class name -> option
    return groups


def all_options(groups):
    opts = ['--disable-all']
    for g, muts in groups.items():
        opts += [f'--{g}', f'--no-{g}']
        for cname, opt in muts.items():
            opts += [f'--{opt}', f'--no-{opt}']
    return opts


def model_fold(groups, seq):
    """-> (enabled: dict class->bool, flags: dict group->None/True/False)"""
    enabled = {c: True for g in groups.values() for c in g}
    flags = {g: None for g in groups}
    by_opt = {opt: c for g in groups.values() for c, opt in g.items()}
    for o in seq:
        if o == '--disable-all':
            for g in groups:
                flags[g] = False
            for c in enabled:
                enabled[c] = False
            continue
        val = not o.startswith('--no-')
        name = o[5:] if o.startswith('--no-') else o[2:]
        if name in groups:
            flags[name] = val
            for c in groups[name]:
                enabled[c] = val
        elif name in by_opt:
            enabled[by_opt[name]] = val
        else:
            raise RuntimeError(f'unknown option {o}')
    return enabled, flags


ILL_FORMED = ['(declare-const broken)', '(declare-fun brokenf)', '(define-fun brokeng ())', '(declare-const)']


def make_input(presence, variant):
    lines = ['(set-logic ALL)', '(declare-const p Bool)']
    if variant % 3 == 0:
        # an ill-formed declaration (ddSMT's own intermediate inputs have them) in front of
        # the well-formed ones must not hide them from theory detection
        lines.append(ILL_FORMED[(variant // 3) % len(ILL_FORMED)])
    for t in AUTO:
        if presence[t]:
            d = THEORY_DECLS[t]
            lines.append(d[variant % len(d)])
    lines += ['(assert p)', '(check-sat)']
    return '\n'.join(lines) + '\n'


def classes_of(passlist):
    return [type(m).__name__ for m in passlist]


def run_case(dd, groups, case, acc):
    seq, presence, variant = case['seq'], case['presence'], case['variant']
    enabled, flags = model_fold(groups, seq)
    text = make_input(presence, variant)
    try:
        env.set_options(dd, list(seq) + ['in.smt2', 'out.smt2', '/bin/true'])
    except SystemExit as e:
        acc.violation('option-rejected', f'parser rejected {seq!r}: {e}', case)
        return False, []
    exprs = list(dd.nodeio.parse_smtlib(text))
    dd.mutators.auto_detect_theories(exprs)
    may_disable = {g for g in AUTO if flags[g] is None and not presence[g]}
    upper = {c for c, v in enabled.items() if v}
    lower = {c for c in upper
             if not any(c in groups[g] for g in may_disable)}
    hier = dd.strategy_hierarchical.get_passes()
    hier_lists = [p[0] if isinstance(p, tuple) else p for p in hier]
    last = set(classes_of(hier_lists[-1]))
    ddm = dd.strategy_ddmin.ddmin_passes()
    ddm_all = set(c for p in ddm for c in classes_of(p))
    group_of = {c: g for g, ms in groups.items() for c in ms}
    seqs = ' '.join(seq) or '(none)'

    def V(key, detail):
        acc.violation(key, f'options: {seqs}; declared: {sorted(k for k, v in presence.items() if v)}; {detail}', case)

    for name, obs, lo, up in (('hierarchical-last-pass', last, lower, upper),
                              ('ddmin', ddm_all, lower - {'BinaryReduction'},
                               upper - {'BinaryReduction'})):
        for c in sorted(obs - up):
            g = group_of.get(c, '?')
            V(f'enabled-though-off/{c}', f'{name} holds disabled mutator {c}')
        for c in sorted(lo - obs):
            g = group_of.get(c, '?')
            if flags[g] is not None and g in AUTO and not presence[g] and enabled[c]:
                V(f'auto-disabled-explicit/{g}', f'{name} lacks {c} although --{g} was given')
            elif g in AUTO and presence[g] and flags[g] is None:
                V(f'auto-disabled-declared/{g}', f'{name} lacks {c} although the input declares {g}')
            else:
                V(f'dropped-though-on/{c}', f'{name} lacks enabled mutator {c}')
    # no pass of either strategy contains a disabled mutator
    for i, p in enumerate(hier_lists):
        for c in set(classes_of(p)) - upper:
            V(f'enabled-though-off/{c}', f'hierarchical pass {i} holds disabled mutator {c}')
    for i, p in enumerate(ddm):
        for c in set(classes_of(p)) - upper:
            V(f'enabled-though-off/{c}', f'ddmin stage {i} holds disabled mutator {c}')
    if 'BinaryReduction' in ddm_all:
        V('ddmin-binary-reduction', 'ddmin schedules BinaryReduction')
    changed = any(not v for v in enabled.values()) or any(f is not None for f in flags.values())
    cls = [f'len-{min(len(seq), 4)}']
    if may_disable:
        cls.append('auto-disable-possible')
    if any(flags[g] is not None and not presence[g] for g in AUTO):
        cls.append('explicit-group-without-declaration')
    if '--disable-all' in seq:
        cls.append('disable-all')
    return changed or bool(may_disable), cls


def presence_vec(i):
    return {t: bool((i >> k) & 1) for k, t in enumerate(AUTO)}


def shard(ctx, acc):
    dd = env.load()
    groups = registry(dd)
    opts = all_options(groups)
    seqs = [()] + [(o, ) for o in opts] + list(itertools.product(opts, opts))
    n = 0
    for i, seq in enumerate(seqs):
        if i % ctx.nshards != ctx.shard:
            continue
        for j, pv in enumerate((0, 31, (i * 7 + ctx.seed) % 32)):
            if ctx.quick and len(seq) == 2 and j == 2 and i % 3:
                continue
            case = dict(seq=list(seq), presence=presence_vec(pv), variant=i + j)
            nt, cls = run_case(dd, groups, case, acc)
            acc.case(case, nontrivial=nt, classes=cls + ['exhaustive-part'],
                     sample=dict(options=list(seq), declared=[t for t, v in case['presence'].items() if v]))
            n += 1
    acc.add_extra('exhaustive_sequences', n)
    total = 1500 if ctx.quick else 250000
    strat = st.builds(
        lambda s, pv, v: dict(seq=s, presence=presence_vec(pv), variant=v),
        st.lists(st.sampled_from(opts), min_size=3, max_size=8), st.integers(0, 31),
        st.integers(0, 5))

    def body(case):
        nt, cls = run_case(dd, groups, case, acc)
        acc.case(case, nontrivial=nt, classes=cls + ['random-part'],
                 sample=dict(options=case['seq'], declared=[t for t, v in case['presence'].items() if v]))

    runner.hyp_run(ctx, strat, body, ctx.share(total))

    # traced real runs
    import os
    import shutil
    from vlib import gen_run
    n = [0]

    def body3(case):
        n[0] += 1
        wd = os.path.join(ctx.workdir, f'run{n[0]}')
        nt = run_traced(dd, groups, case, acc, wd)
        shutil.rmtree(wd, ignore_errors=True)
        acc.case(dict(kind='traced', opts=case['opts'], text=case['text']), nontrivial=nt, classes=['traced-run'],
                 sample=dict(kind='traced', options=case['opts'].get('extra_argv', []), strategy=case['opts']['strategy']))

    runner.hyp_run(ctx, gen_run.run_case(jobs=(1, 2), formats=('default', ), with_cc=False, with_delay=False,
                                         comparisons=False, mutator_subsets=True, max_asserts=3,
                                         kinds=['monotone', 'mixed']),
                   body3, ctx.share(32 if ctx.quick else 600), salt=13)


def run_traced(dd, groups, case, acc, wd):
    """A real run: the mutator classes handed to every Producer / TaskGenerator
    are within the model's bounds."""
    from vlib import e2e
    seq = case['opts'].get('extra_argv', [])
    enabled, flags = model_fold(groups, seq)
    presence = dict(arithmetic=True, bv=True, datatypes=False, fp=False, strings=False)
    may_disable = {g for g in AUTO if flags[g] is None and not presence[g]}
    upper = {c for c, v in enabled.items() if v}
    lower = {c for c in upper if not any(c in groups[g] for g in may_disable)}
    r = e2e.run_ddsmt(wd, case['text'], case['spec'], case['opts'], mode='launcher',
                      plan=dict(trace=True, stop_on_repeat=True, max_accepts=100), wall_limit=120)
    if r.timed_out or r.after is None or r.after.get('rc') not in (0, 1):
        acc.skip('traced run: wall limit / crash')
        return False
    seen = {'Producer': set(), 'TaskGenerator': set()}
    for e in r.trace:
        if e['e'] == 'G':
            seen[e['kind']].update(e['mutators'])
            for c in set(e['mutators']) - upper:
                acc.violation(f'enabled-though-off/{c}', f'traced run with options {seq}: {e["kind"]} got disabled mutator {c}',
                              dict(case, kind='traced'))
    complete = r.after.get('rc') == 0 and not r.after.get('repeat')
    strat = case['opts']['strategy']
    if complete and strat in ('hierarchical', 'hybrid'):
        for c in sorted(lower - seen['Producer']):
            acc.violation(f'dropped-though-on/{c}', f'traced run with options {seq}: no Producer ever got enabled mutator {c}',
                          dict(case, kind='traced'))
    if complete and strat in ('ddmin', 'hybrid'):
        for c in sorted(lower - {'BinaryReduction'} - seen['TaskGenerator']):
            acc.violation(f'dropped-though-on/{c}', f'traced run with options {seq}: no TaskGenerator ever got enabled mutator {c}',
                          dict(case, kind='traced'))
        # ddmin repeats its passes until a whole round reduces nothing: that last round (and
        # every other) starts with the first mutator again and must schedule every enabled one
        names = [e['mutators'][0] for e in r.trace if e['e'] == 'G' and e['kind'] == 'TaskGenerator' and e['mutators']]
        rounds = []
        for i, n_ in enumerate(names):
            if i == 0 or (n_ == names[0] and names[i - 1] != names[0]):
                rounds.append(set())
            rounds[-1].add(n_)
        if len(rounds) >= 2:
            acc.count('ddmin-runs-with-several-rounds')
            missing = sorted(lower - {'BinaryReduction'} - rounds[-1])
            if missing and not (lower - {'BinaryReduction'} - seen['TaskGenerator']):
                acc.violation('dropped-in-last-ddmin-round/' + missing[0],
                              f'traced run with options {seq}: ddmin round {len(rounds)} of {len(rounds)} scheduled '
                              f'{len(rounds[-1])} mutators, not the enabled {missing[:4]}', dict(case, kind='traced'))
    return bool(seq)


def finish(acc, tier):
    acc.extra['singles_and_pairs_exhaustive'] = True


def replay(case, acc, ctx):
    dd = env.load()
    if case.get('kind') == 'traced':
        import os
        run_traced(dd, registry(dd), case, acc, os.path.join(ctx.workdir, 'replay'))
    else:
        run_case(dd, registry(dd), case, acc)
