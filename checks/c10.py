"""C10 - runs exceeding the time or memory limit are rejected and never stall ddSMT."""
import os
import shutil
import time

from hypothesis import strategies as st

from vlib import e2e, env, gen_run, runner
from vlib import spec as vspec

PROPERTY = 'C10'
LEVEL = 'fault_enumeration'
RULE = ('Fault sequences: the command spec maps token-hash classes of the candidate '
        'to {sleep forever (also with SIGTERM ignored), spin forever, allocate without bound (heap or shared mappings), wrapper with a hanging child, die from SIGSEGV, '
        'die from SIGKILL}, so faults land at pseudo-random places of a real run; '
        '--timeout in {0.3, 0.5}, --memout 200 (always when the allocate class is '
        'present), -j in {1, 3}, all three strategies.  (i) component: checker.execute '
        'on a file of each fault class returns within the limit + slack, with the '
        'documented RunInfo, and the command process is dead.  (ii) run level '
        '(launcher, traced writes): no content whose tokens belong to a fault class '
        'is ever written to the output file; exit status 0; no process of the run\'s '
        'process group survives; wall time <= tests x limit + constant.  A stall is '
        'reported only with a process-table witness (main alive past the bound and a '
        'command child older than 10 x its limit).  (iii) --match-out/--match-err '
        'absent from the golden stream: status 1, no output file, command executed '
        'once.  (iv) default limits: each of --timeout/--timeout-cc that is not given (the other one may be) is '
        '1.5 x (its own golden run time + 1 s).  Non-trivial: a run in which candidates of >= 2 different fault classes '
        'were executed; distinct = distinct case.')
ASSUMPTIONS = [
    'real time is involved: bounds are one-sided with large margins; exceeding the harness budget without a process-table witness is inconclusive',
    'for the allocating class both outcomes - killed by the wall-clock limit or dying from the memory limit first - count as rejected',
    'cross-check match strings are not asserted',
]

# both ways of exhausting --memout end the command the same way (abort)
OUTCOME = {'m': 'a'}
KINDS = {'s': 'sleep', 't': 'sleep-ignoring-SIGTERM', 'p': 'spin', 'a': 'allocate', 'm': 'allocate-shared-mappings', 'v': 'sigsegv', 'k': 'sigkill', 'w': 'wrapper-with-hanging-child'}


def kill_hanging_children():
    """Kill the 'sleep 987654' processes the wrapper fault leaves behind in
    *this* process group (exact command line match, no pattern kill)."""
    me = os.getpgrp()
    for pid in os.listdir('/proc'):
        if not pid.isdigit():
            continue
        try:
            with open(f'/proc/{pid}/cmdline', 'rb') as f:
                cl = f.read()
            if cl == b'sleep\x00987654\x00' and os.getpgid(int(pid)) == me:
                os.kill(int(pid), 9)
        except (OSError, ValueError):
            pass


def component(dd, ctx, acc):
    wd = ctx.workdir
    os.makedirs(wd, exist_ok=True)
    fn = os.path.join(wd, 'cand.smt2')
    with open(fn, 'w') as f:
        f.write('(assert true)\n')
    for kind in 'stpamvkw':
        for memout in (None, 200):
            if kind in 'am' and memout is None:
                continue
            sp = dict(pred=['true'], T=[0, 'ok\n', ''], F=[1, '', ''], fault=[1, 1, {'0': kind}])
            spf = vspec.write_spec(sp, os.path.join(wd, f'comp-{kind}.spec'))
            log = os.path.join(wd, f'comp-{kind}.log')
            if os.path.exists(log):
                os.unlink(log)
            cmd = vspec.cmdline(spf, log)
            argv = ['--timeout', '0.4'] + (['--memout', str(memout)] if memout else []) + ['in.smt2', 'out.smt2'] + cmd
            env.set_options(dd, argv)
            case = dict(kind='component', fault=KINDS[kind], memout=memout)
            # execute() runs in a forked child so that a call that never
            # returns (no time limit on the command) is observed, not shared
            import multiprocessing
            rd, wr = multiprocessing.get_context('fork').Pipe(False)

            def child():
                t0 = time.time()
                ri_ = dd.checker.execute(cmd, fn, 0.4)
                wr.send((tuple(ri_), time.time() - t0))
                os._exit(0)

            pr = multiprocessing.get_context('fork').Process(target=child)
            pr.start()
            if rd.poll(0.4 + 8.0):
                ri_t, dt = rd.recv()
                pr.join(5)
            else:
                ri_t, dt = None, None
            if ri_t is None:
                lg = vspec.read_log(log)
                acc.violation(f'stall/component-{KINDS[kind]}',
                              f'checker.execute did not return within 8 s of its 0.4 s limit on a command that {KINDS[kind]}s', case)
                for e in lg:
                    try:
                        os.kill(e['pid'], 9)
                    except OSError:
                        pass
                pr.kill()
                pr.join(5)
                acc.case(case, nontrivial=True, classes=['component', 'component-' + KINDS[kind]])
                continue
            ri = dd.checker.RunInfo(*ri_t)
            if dt > 0.4 + 3.0:
                acc.violation(f'component-slow/{KINDS[kind]}', f'execute returned after {dt:.2f}s (limit 0.4s)', case)
            lg = vspec.read_log(log)
            if len(lg) != 1:
                raise RuntimeError(f'component: command logged {len(lg)} calls')
            pid = lg[0]['pid']
            dead = False
            for _ in range(100):
                try:
                    with open(f'/proc/{pid}/stat') as f:
                        state = f.read().rsplit(')', 1)[1].split()[0]
                    if state == 'Z':
                        dead = True
                        break
                except OSError:
                    dead = True
                    break
                time.sleep(0.02)
            if not dead:
                acc.violation(f'survivor/component-{KINDS[kind]}', f'command process {pid} still alive 2 s after execute returned', case)
                try:
                    os.kill(pid, 9)
                except OSError:
                    pass
            if kind in 'stpw':
                if not (ri.exit is None and ri.out is None and ri.err is None):
                    acc.violation(f'component-runinfo/{KINDS[kind]}', f'timed-out run recorded as {ri!r}', case)
            if kind in 'vk' and (ri.exit is None or ri.exit >= 0):
                acc.violation(f'component-runinfo/{KINDS[kind]}', f'signal death recorded as {ri!r}', case)
            if kind in 'am' and ri.exit == 0:
                acc.violation(f'component-runinfo/{KINDS[kind]}', f'allocating run recorded as {ri!r}', case)
            if kind == 'w':
                kill_hanging_children()
            acc.case(case, nontrivial=True, classes=['component', 'component-' + KINDS[kind]])
            # reap zombies left by proc.kill() without wait()
            try:
                while os.waitpid(-1, os.WNOHANG)[0]:
                    pass
            except ChildProcessError:
                pass


def default_limits(dd, ctx, acc):
    """Default time limits: 1.5 x (golden run time + 1 s), each command from
    its OWN golden run."""
    wd = ctx.workdir
    os.makedirs(wd, exist_ok=True)
    infile = os.path.join(wd, 'limits-in.smt2')
    with open(infile, 'w') as f:
        f.write('(assert true)\n')
    # (golden run time of the command, of the cross check, --timeout given?, --timeout-cc given?)
    for main_ms, cc_ms, given, given_cc in ((0, 700, None, None), (700, 0, None, None), (300, 300, None, None),
                                            (0, 400, 7.5, None), (400, 0, None, 6.5), (0, 0, 7.5, 6.5)):
        case = dict(kind='limits', main_ms=main_ms, cc_ms=cc_ms, timeout=given, timeout_cc=given_cc)
        specs = []
        for role, ms in (('main', main_ms), ('cc', cc_ms)):
            sp = dict(pred=['true'], T=[0, 'ok\n', ''], F=[1, '', ''], delay=[0, [ms]])
            specs.append(vspec.write_spec(sp, os.path.join(wd, f'limits-{role}.spec')))
        log = os.path.join(wd, 'limits.log')
        cmd = vspec.cmdline(specs[0], log, 'main')
        cmd_cc = vspec.cmdline(specs[1], log, 'cc')
        env.set_options(dd, (['--timeout', str(given)] if given else []) + (['--timeout-cc', str(given_cc)] if given_cc else [])
                        + ['-c', ' '.join(cmd_cc), infile, os.path.join(wd, 'limits-out.smt2')] + cmd)
        dd.tmpfiles.init()
        dd.tmpfiles.copy_binaries()
        dd.checker.do_golden_runs()
        a = dd.options.args()
        for name, got, ms, explicit in (('timeout', a.timeout, main_ms, given), ('timeout_cc', a.timeout_cc, cc_ms, given_cc)):
            if explicit:
                # a limit the user gave stays as given (whatever the other one is)
                if got != explicit:
                    acc.violation(f'explicit-limit/{name}', f'--{name.replace("_", "-")} {explicit} given, in effect: {got}', case)
                continue
            lo, hi = 1.5 * (ms / 1000 + 1) - 0.01, 1.5 * (ms / 1000 + 1 + 1.5)
            if got is None or not (lo <= got <= hi):
                acc.violation(f'default-limit/{name}',
                              f'golden run of that command took about {ms} ms, default {name} = {got} '
                              f'(expected 1.5 x (runtime + 1) in [{lo:.2f}, {hi:.2f}]); main {main_ms} ms, cross check {cc_ms} ms',
                              case)
        acc.case(case, nontrivial=True, classes=['default-limits'])


@st.composite
def fault_case(draw, force_memout_profile=False):
    c = draw(gen_run.run_case(jobs=(1, 3), formats=('default', ), with_cc=False, with_delay=False,
                              comparisons=False, max_asserts=4, kinds=['monotone', 'mixed', 'hash']))
    kinds = draw(st.lists(st.sampled_from('stpamvkw'), min_size=1, max_size=3, unique=True))
    mod = draw(st.sampled_from([12, 16, 24]))
    th = vspec.token_hash(vspec.tokens_of_text(c['text']))
    # choose a salt under which the original itself is not faulty
    salt = draw(st.integers(0, 10**6))
    classes = {}
    free = [k for k in range(mod) if k != vspec.mix(th, salt) % mod]
    for i, k in enumerate(kinds):
        classes[str(free[(i * 5 + 1) % len(free)])] = k
    c['golden_fault'] = None
    if draw(st.integers(0, 3)) == 0:
        # the golden run itself dies from a signal (quickly): candidates that die
        # the same way match, candidates that time out do not
        gk = draw(st.sampled_from('kv'))
        classes[str(vspec.mix(th, salt) % mod)] = gk
        c['golden_fault'] = gk
        c['opts']['ignore_output'] = True
    c['spec']['fault'] = [salt, mod, classes]
    c['opts']['timeout'] = draw(st.sampled_from([0.3, 0.5]))
    if 'a' in kinds or 'm' in kinds or draw(st.booleans()):
        c['opts']['memout'] = 200
    if force_memout_profile or draw(st.integers(0, 5)) == 0:
        # --memout without --timeout (the default time limit is derived from the
        # golden run); optionally the golden run itself exhausts the memory limit
        classes = {k: v for k, v in classes.items() if v in 'amvk'}
        free2 = [k for k in range(mod) if str(k) not in classes and k != vspec.mix(th, salt) % mod]
        ak = draw(st.sampled_from('am'))
        classes[str(free2[0])] = ak
        c['golden_fault'] = None
        c['opts'].pop('ignore_output', None)
        if force_memout_profile or draw(st.booleans()):
            classes[str(vspec.mix(th, salt) % mod)] = ak
            c['golden_fault'] = ak
            c['opts']['ignore_output'] = True
        else:
            classes.pop(str(vspec.mix(th, salt) % mod), None)
        c['spec']['fault'] = [salt, mod, classes]
        c['opts']['timeout'] = None
        c['opts']['memout'] = 200
        c['profile'] = 'memout-without-timeout'
    c['kind'] = 'run'
    return c


def run_fault_case(case, acc, wd):
    limit = case['opts']['timeout'] or 3.0
    if 'stall' in acc.violations:
        acc.skip('stall bucket saturated')
        return False, ['run']
    r = e2e.run_ddsmt(wd, case['text'], case['spec'], case['opts'], mode='launcher',
                      plan=dict(trace=True, stop_on_repeat=True, max_accepts=150), wall_limit=75)
    classes = ['run', f'strategy-{case["opts"]["strategy"]}', f'jobs-{case["opts"]["jobs"]}'] + \
        ([case['profile']] if case.get('profile') else []) + (['golden-' + KINDS[case['golden_fault']]] if case.get('golden_fault') else [])
    faults = {}
    for e in r.log:
        if e['fault']:
            faults.setdefault('%016x' % e['tokhash'], e['fault'])
    seen_kinds = sorted(set(faults.values()))
    classes += ['fault-' + KINDS[k] for k in seen_kinds]
    if r.timed_out:
        # a stall needs a witness, elapsed time alone is not one: the command has not
        # been started on any file for far longer than its limit although ddSMT is
        # still running (a merely slow run keeps logging executions)
        idle = getattr(r, 'log_idle_at_timeout', None)
        if idle is not None and idle > max(20 * limit, 15):
            acc.violation('stall', f'ddSMT still running after 75 s and no command execution for {idle:.0f} s '
                          f'(limit {limit} s); processes: {getattr(r, "survivors_at_timeout", [])[:3]}', case)
        else:
            acc.skip('inconclusive: wall budget exceeded without stall witness')
            acc.inconclusive.append(dict(why='wall budget', idle=idle, case=case))
        return False, classes
    if r.after is None:
        acc.skip('launcher crashed')
        return False, classes
    if r.after.get('repeat') or r.after.get('too_many_accepts'):
        classes.append('stopped-at-repeat')
    elif r.after['rc'] != 0:
        if 'Traceback (most recent call last)' in r.stderr:
            acc.count('run-failed(see C04)')
        else:
            acc.violation('exit-status', f'run with faulty candidates ended with status {r.after["rc"]}: {r.stderr[-300:]!r}', case)
    if case.get('golden_fault'):
        # the golden run ended abnormally: only candidates that end the same way match
        for e in r.trace:
            if e['e'] == 'Wb' and OUTCOME.get(faults.get(e['tok']), faults.get(e['tok'])) != OUTCOME.get(case['golden_fault'], case['golden_fault']):
                acc.violation(f'adopted/normal-though-golden-{KINDS[case["golden_fault"]]}',
                              f'the golden run {KINDS[case["golden_fault"]]}s, yet a candidate on which the command '
                              f'{KINDS.get(faults.get(e["tok"]), "ends normally")} was written to the output file '
                              f'(options {case["opts"]})', case)
                break
    for e in r.trace:
        if e['e'] == 'Wb' and e['tok'] in faults and \
                OUTCOME.get(faults[e['tok']], faults[e['tok']]) != OUTCOME.get(case.get('golden_fault'), case.get('golden_fault')):
            acc.violation(f'adopted/{KINDS[faults[e["tok"]]]}',
                          f'a candidate on which the command {KINDS[faults[e["tok"]]]}s was written to the output file', case)
    r.survivors = [x for x in r.survivors if 'sleep 987654' not in x[2]]
    if r.survivors:
        acc.violation('survivor', f'processes alive after ddSMT exited: {r.survivors[:3]}', case)
    bound = len(r.log) * limit + 45
    if r.wall > bound:
        acc.violation('too-slow', f'run took {r.wall:.1f}s for {len(r.log)} tests with limit {limit}s', case)
    acc.add_extra('faulty_candidates_executed', len([e for e in r.log if e['fault']]))
    return len(seen_kinds) >= 2, classes


@st.composite
def match_case(draw):
    c = draw(gen_run.run_case(jobs=(1, ), formats=('default', ), with_cc=False, with_delay=False,
                              comparisons=False, max_asserts=3, kinds=['monotone']))
    c['which'] = draw(st.sampled_from(['match_out', 'match_err']))
    c['opts'][c['which']] = draw(st.sampled_from(['ZZZ-not-there', 'no such text', 'sat ']))
    # the same stream may be ignored for the comparison of candidates: the golden run must
    # show the configured string all the same
    ign = draw(st.sampled_from([None, None, 'ignore_output', 'ignore_out' if c['which'] == 'match_out' else 'ignore_err']))
    if ign:
        c['opts'][ign] = True
    if draw(st.integers(0, 2)) == 0:
        # options that have nothing to do with it
        c['opts']['misc_argv'] = list(c['opts'].get('misc_argv', [])) + ['--profile']
    c['kind'] = 'match'
    return c


def run_match_case(case, acc, wd):
    r = e2e.run_ddsmt(wd, case['text'], case['spec'], case['opts'], mode='blackbox', wall_limit=60)
    if r.exit != 1:
        acc.violation('golden-match-status', f'exit status {r.exit} although the golden run lacks --{case["which"]}', case)
    if r.out_text is not None:
        acc.violation('golden-match-output-written', 'an output file was written', case)
    if len(r.log) != 1:
        acc.violation('golden-match-executions', f'command executed {len(r.log)} times', case)
    if 'Traceback (most recent call last)' in r.stderr:
        acc.violation('golden-match-traceback', r.stderr[-300:], case)
    return True, ['match', case['which']]


def shard(ctx, acc):
    dd = env.load()
    if ctx.shard < 2:
        component(dd, ctx, acc)
    if ctx.shard in (2, 3):
        default_limits(dd, ctx, acc)
    n = [0]

    def body(case):
        n[0] += 1
        wd = os.path.join(ctx.workdir, f'run{n[0]}')
        if case['kind'] == 'run':
            nt, classes = run_fault_case(case, acc, wd)
        else:
            nt, classes = run_match_case(case, acc, wd)
        shutil.rmtree(wd, ignore_errors=True)
        acc.case(case, nontrivial=nt, classes=classes,
                 sample=dict(kind=case['kind'], opts=case['opts'], fault=case['spec'].get('fault'),
                             input=case['text'][:200]))

    total = 64 if ctx.quick else 900
    runner.hyp_run(ctx, st.one_of(fault_case(), fault_case(), fault_case(), fault_case(True), match_case()), body,
                   ctx.share(total))


def replay(case, acc, ctx):
    wd = os.path.join(ctx.workdir, 'replay')
    if case.get('kind') == 'run':
        run_fault_case(case, acc, wd)
    elif case.get('kind') == 'match':
        run_match_case(case, acc, wd)
    elif case.get('kind') == 'limits':
        default_limits(env.load(), ctx, acc)
    else:
        component(env.load(), ctx, acc)
